//! Generator of the C12 golden images. Built against a worktree of the PINNED commit (4b82afd),
//! uses only the public API; verifies what it wrote with the independent decoder before keeping it.
//! Not part of any check: the images it produced are committed under /verif/golden.
#[path = "../../../harness/src/util.rs"]
#[allow(dead_code)]
mod util;
#[path = "../../../harness/src/decoder.rs"]
#[allow(dead_code)]
mod decoder;

use abyssiniandb::filedb::{FileDbParams, HashBucketsParam};
use abyssiniandb::{DbXxx, DbXxxBase};
use std::collections::BTreeMap;
use std::path::Path;
use util::Rng;

type Model = BTreeMap<Vec<u8>, Vec<u8>>;

fn vu_len(v: u64) -> u64 {
    decoder::vu_len(v) as u64
}
fn slot_for_payload(e: u64) -> u64 {
    let total = e + vu_len((e + 7) / 8);
    for &c in decoder::CLASSES.iter().take(15) {
        if total <= c as u64 {
            return c as u64;
        }
    }
    ((total + 128) / 128) * 128
}
fn key_slot(klen: u64, wv: u64, wn: u64) -> u64 {
    slot_for_payload(vu_len(klen) + klen + wv + wn)
}
/// key lengths whose slot does not depend on the offset widths (<= 3 bytes): such keys never move
fn safe_key_len(l: u64) -> bool {
    key_slot(l, 2, 1) == key_slot(l, 3, 3)
}

fn make_keys(kt: &str, rng: &mut Rng, n: usize) -> Vec<Vec<u8>> {
    let mut v: Vec<Vec<u8>> = Vec::new();
    while v.len() < n {
        let k: Vec<u8> = match kt {
            // (the integer key types also accept byte strings of other lengths: every sixth key is one)
            "u64" if v.len() % 6 == 5 => util::gen_bytes([1usize, 3, 7, 12][v.len() % 4], rng.next() as u32, 0),
            "i64" if v.len() % 6 == 5 => util::gen_bytes([2usize, 4, 7, 16][v.len() % 4], rng.next() as u32, 0),
            "u64" => (rng.next() >> rng.below(60)).to_le_bytes().to_vec(),
            "i64" => ((rng.next() >> rng.below(60)) as i64).wrapping_neg().to_le_bytes().to_vec(),
            // (the vu64 key type takes raw byte strings too: a complete code with bytes behind it, every sixth key)
            "vu64" if v.len() % 6 == 5 => {
                let mut k = decoder::vu_encode(rng.next() >> (30 + rng.below(30)));
                if v.len() % 12 == 5 {
                    k.push(0x33);
                } else {
                    k.extend_from_slice(&[0, 0]);
                }
                k
            }
            "vu64" => {
                // up to 8 bytes encoded (9-byte keys could move when offsets get wide)
                decoder::vu_encode(rng.next() >> (8 + rng.below(55)))
            }
            _ => {
                let mut l = rng.below(40);
                while !safe_key_len(l) {
                    l += 1;
                }
                let mut k = util::gen_bytes(l as usize, rng.next() as u32, if kt == "string" { 1 } else { 0 });
                if v.is_empty() {
                    k.clear(); // the empty key is part of the format
                }
                k
            }
        };
        if !v.contains(&k) && safe_key_len(k.len() as u64) {
            v.push(k);
        }
    }
    v
}

trait M {
    fn put_b(&mut self, k: &[u8], v: &[u8]);
    fn del_b(&mut self, k: &[u8]) -> Option<Vec<u8>>;
    fn get_b(&mut self, k: &[u8]) -> Option<Vec<u8>>;
    fn len_b(&self) -> u64;
}
impl<K: abyssiniandb::DbMapKeyType + for<'a> From<&'a [u8]>> M for abyssiniandb::filedb::FileDbMap<K> {
    fn put_b(&mut self, k: &[u8], v: &[u8]) {
        self.put(k, v).unwrap()
    }
    fn del_b(&mut self, k: &[u8]) -> Option<Vec<u8>> {
        self.delete(k).unwrap()
    }
    fn get_b(&mut self, k: &[u8]) -> Option<Vec<u8>> {
        self.get(k).unwrap()
    }
    fn len_b(&self) -> u64 {
        self.len().unwrap()
    }
}

fn open(db: &abyssiniandb::filedb::FileDb, kt: &str, name: &str, p: FileDbParams) -> Box<dyn M> {
    match kt {
        "bytes" => Box::new(db.db_map_bytes_with_params(name, p).unwrap()),
        "string" => Box::new(db.db_map_string_with_params(name, p).unwrap()),
        "u64" => Box::new(db.db_map_u64_with_params(name, p).unwrap()),
        "i64" => Box::new(db.db_map_i64_with_params(name, p).unwrap()),
        "vu64" => Box::new(db.db_map_vu64_with_params(name, p).unwrap()),
        _ => unreachable!(),
    }
}

fn sig(kt: &str) -> [u8; 8] {
    match kt {
        "bytes" => *b"bytes\0\0\0",
        "string" => *b"string\0\0",
        "i64" => *b"i64_le\0\0",
        _ => *b"u64_le\0\0",
    }
}

fn generate(out: &Path, kt: &str, buckets: HashBucketsParam, tag: &str, seed: u64, name: &str) {
    let dir = out.join(format!("{kt}_{tag}"));
    let _ = std::fs::remove_dir_all(&dir);
    let mut rng = Rng::new(seed);
    let mut model = Model::new();
    let nkeys = if tag == "default" { 20 } else { 60 };
    let keys = make_keys(kt, &mut rng, nkeys + 10);
    {
        let db = abyssiniandb::open_file(&dir).unwrap();
        let mut m = open(&db, kt, name, FileDbParams { buckets_size: buckets.clone(), ..Default::default() });
        let small = [0usize, 1, 13, 14, 15, 22, 23, 30, 31, 46, 47, 62, 100, 126, 127, 250, 253, 254, 500, 893, 894];
        // inserts: mostly small values, a few large ones (>= 1024 byte slots), sizes ascending so that
        // a freed large slot is never reused by a smaller request
        for (i, k) in keys.iter().take(nkeys).enumerate() {
            let l = if i % 12 == 5 { 1100 + 150 * i } else { small[(i * 7) % small.len()] };
            let v = util::gen_bytes(l, i as u32, 0);
            m.put_b(k, &v);
            model.insert(k.clone(), v);
        }
        // overwrites: shrink in place, grow (value relocates, old slot goes to a free list)
        for (i, k) in keys.iter().take(nkeys).enumerate().filter(|(i, _)| i % 3 == 1) {
            let old = model[k].len();
            let l = if old >= 1024 { old + 3000 + 200 * i } else if i % 2 == 0 { old / 2 } else { old + 40 };
            let v = util::gen_bytes(l, 1000 + i as u32, 2);
            m.put_b(k, &v);
            model.insert(k.clone(), v);
        }
        // deletes: free key and value slots of several classes (small values only)
        let dels: Vec<Vec<u8>> = keys.iter().take(nkeys).filter(|k| model[*k].len() < 900).step_by(4).cloned().collect();
        for k in dels.iter() {
            let got = m.del_b(k);
            assert_eq!(got, model.remove(k));
        }
        // a few inserts reuse some of the free slots, others stay on the free lists
        for (i, k) in keys.iter().skip(nkeys).take(5).enumerate() {
            let v = util::gen_bytes([14usize, 30, 100, 22, 60][i], 2000 + i as u32, 0);
            m.put_b(k, &v);
            model.insert(k.clone(), v);
        }
        assert_eq!(m.len_b(), model.len() as u64);
        for k in keys.iter() {
            assert_eq!(m.get_b(k), model.get(k).cloned());
        }
    } // all handles dropped: buffers are written by Drop
    // verify with the independent decoder before keeping the image
    let img = decoder::Image::read(&dir, name).unwrap();
    let dec = decoder::decode(&img, Some(sig(kt)));
    assert!(dec.problems.is_empty(), "{kt}_{tag}: {:?}", dec.problems.first());
    assert!(decoder::contents_mismatch(&img, &dec, &model).is_none());
    let free: usize = dec.keyf.free.iter().chain(dec.valf.free.iter()).map(|l| l.len()).sum();
    let large_used = dec.valf.slots.iter().filter(|s| s.size >= 1024 && s.kind == decoder::SlotKind::Used).count();
    // expected contents
    let mut t = String::new();
    t.push_str(&format!("# golden image written by the pinned release (4b82afd); kt={kt} table={} entries={} free_slots={free} max_chain={} large_used={large_used}\n", dec.n, model.len(), dec.max_chain));
    t.push_str(&format!("name {name}\n"));
    for (k, v) in model.iter() {
        t.push_str(&format!("kv {} {}\n", util::hex(k), util::hex(v)));
    }
    for k in keys.iter().filter(|k| !model.contains_key(*k)) {
        t.push_str(&format!("absent {}\n", util::hex(k)));
    }
    std::fs::write(dir.join("expected.txt"), t).unwrap();
    // the default table is 136 MB of mostly zeros: keep only the non-zero 4 KiB pages
    if img.htx.len() > 1 << 20 {
        let mut s = format!("len {}\n", img.htx.len());
        for (i, page) in img.htx.chunks(4096).enumerate() {
            if page.iter().any(|&b| b != 0) {
                s.push_str(&format!("page {} {}\n", i * 4096, util::hex(page)));
            }
        }
        std::fs::write(dir.join(format!("{name}.htx.sparse")), s).unwrap();
        std::fs::remove_file(dir.join(format!("{name}.htx"))).unwrap();
    }
    println!("{kt}_{tag}: table {} entries {} free slots {free} max chain {} large used {large_used} key file {} val file {}", dec.n, model.len(), dec.max_chain, img.key.len(), img.val.len());
}

/// key lengths whose slot does not depend on the offset widths at all (1..4 bytes each): such records never move
fn safe4(l: u64) -> bool {
    let s = key_slot(l, 1, 1);
    (1..=4).all(|wv| (1..=4).all(|wn| key_slot(l, wv, wn) == s))
}

/// compact form of a byte string with a long run of leading zeros: z<count>+<hex of the rest>
fn spec(b: &[u8]) -> String {
    let z = b.iter().take_while(|&&x| x == 0).count();
    if z >= 32 {
        format!("z{z}+{}", util::hex(&b[z..]))
    } else {
        util::hex(b)
    }
}

fn write_sparse(path: &Path, data: &[u8]) {
    let mut s = format!("len {}\n", data.len());
    for (i, blk) in data.chunks(256).enumerate() {
        if blk.iter().any(|&b| b != 0) {
            s.push_str(&format!("blk {} {}\n", i * 256, util::hex(blk)));
        }
    }
    std::fs::write(path, s).unwrap();
}

/// an image in the "wide" regime of the format: both record files beyond 16 MiB (4-byte offset fields), keys of 64 KiB
/// and of more than 128 KiB (3-byte slot-size field, key length beyond 16 bits), a value of more than 2 MiB (4-byte
/// length field); long runs of zeros inside keys and values keep the stored (sparse) form small
fn generate_big(out: &Path) {
    let name = "m";
    let dir = out.join("bytes_wide16m");
    let _ = std::fs::remove_dir_all(&dir);
    let mut model = Model::new();
    let mut absent: Vec<Vec<u8>> = Vec::new();
    let mut ctr: u32 = 0;
    let mut mk = |len: usize| -> Vec<u8> {
        ctr += 1;
        let mut l = len as u64;
        while !safe4(l) {
            l += 1;
        }
        let mut k = vec![0u8; l as usize];
        let n = k.len();
        let c = (0x0101_0100u32 + ctr).to_be_bytes();
        if n >= 4 {
            k[n - 4..].copy_from_slice(&c);
        } else {
            k.copy_from_slice(&c[4 - n..]);
        }
        k
    };
    {
        let db = abyssiniandb::open_file(&dir).unwrap();
        let mut m = open(&db, "bytes", name, FileDbParams { buckets_size: HashBucketsParam::BucketsSize(8), ..Default::default() });
        let mut put = |m: &mut Box<dyn M>, model: &mut Model, k: Vec<u8>, v: Vec<u8>| {
            m.put_b(&k, &v);
            model.insert(k, v);
        };
        // early entries (short offsets)
        let early: Vec<Vec<u8>> = (0..10).map(|i| mk(4 + 3 * i)).collect();
        for (i, k) in early.iter().enumerate() {
            put(&mut m, &mut model, k.clone(), util::gen_bytes([14usize, 15, 0, 100, 23][i % 5], i as u32, 0));
        }
        // the value file passes 16 MiB
        for _ in 0..17 {
            let k = mk(12);
            put(&mut m, &mut model, k, vec![0u8; 1 << 20]);
        }
        // long keys; the key file passes 16 MiB
        let mut lens: Vec<usize> = vec![65_535, 65_536, 70_000, 131_000, 131_072, 131_100, 200_000];
        for j in 0..126usize {
            lens.push(if j % 2 == 0 { 140_000 + j } else { 126_000 + j });
        }
        let mut long: Vec<Vec<u8>> = Vec::new();
        for (j, l) in lens.into_iter().enumerate() {
            let k = mk(l);
            put(&mut m, &mut model, k.clone(), util::gen_bytes([5usize, 0, 14, 300][j % 4], 300 + j as u32, 0));
            long.push(k);
        }
        // the late population: every offset in it needs four bytes
        let late: Vec<Vec<u8>> = (0..48).map(|i| mk(3 + (i * 5) % 37)).collect();
        for (i, k) in late.iter().enumerate() {
            put(&mut m, &mut model, k.clone(), util::gen_bytes([0usize, 5, 14, 15, 22, 23, 100, 500][i % 8], 500 + i as u32, 0));
        }
        // a value with a four-byte length field
        let k2m = mk(9);
        let mut v2m = vec![0u8; (1 << 21) + 1];
        v2m[(1 << 21) - 7..].copy_from_slice(b"the-end!");
        put(&mut m, &mut model, k2m, v2m);
        // overwrites that relocate values behind 16 MiB (sizes ascending: no large free slot is reused by a smaller one)
        for (i, k) in late.iter().enumerate().filter(|(i, _)| i % 4 == 1) {
            let v = util::gen_bytes(600 + 40 * i, 900 + i as u32, 2);
            put(&mut m, &mut model, k.clone(), v);
        }
        for (i, k) in early.iter().enumerate().filter(|(i, _)| i % 3 == 0) {
            let v = util::gen_bytes(200 + i, 950 + i as u32, 0);
            put(&mut m, &mut model, k.clone(), v);
        }
        // deletes: free slots behind 16 MiB in both files (free-list links of four bytes), one long key gone
        for k in late.iter().step_by(5).chain(long.iter().skip(20).take(1)) {
            let got = m.del_b(k);
            assert_eq!(got, model.remove(k));
            absent.push(k.clone());
        }
        // a few inserts after the deletes
        for i in 0..4 {
            let k = mk(5 + i);
            put(&mut m, &mut model, k, util::gen_bytes(14 + i, 990 + i as u32, 0));
        }
        assert_eq!(m.len_b(), model.len() as u64);
        for (k, v) in model.iter() {
            assert_eq!(m.get_b(k).as_ref(), Some(v));
        }
        for k in absent.iter() {
            assert_eq!(m.get_b(k), None);
        }
    }
    let img = decoder::Image::read(&dir, name).unwrap();
    let dec = decoder::decode(&img, Some(sig("bytes")));
    assert!(dec.problems.is_empty(), "bytes_wide16m: {:?}", dec.problems.first());
    assert!(decoder::contents_mismatch(&img, &dec, &model).is_none());
    assert!(img.key.len() > (1 << 24) + 4096 && img.val.len() > (1 << 24) + 4096, "both record files must pass 16 MiB: {} {}", img.key.len(), img.val.len());
    let free: usize = dec.keyf.free.iter().chain(dec.valf.free.iter()).map(|l| l.len()).sum();
    let mut t = String::new();
    t.push_str(&format!("# golden image written by the pinned release (4b82afd); kt=bytes table={} entries={} free_slots={free} max_chain={} key_file={} val_file={} (keys and values with long zero runs: zN+hex = N zero bytes, then the hex bytes)\n", dec.n, model.len(), dec.max_chain, img.key.len(), img.val.len()));
    t.push_str(&format!("name {name}\n"));
    for (k, v) in model.iter() {
        t.push_str(&format!("kv {} {}\n", spec(k), spec(v)));
    }
    for k in absent.iter() {
        t.push_str(&format!("absent {}\n", spec(k)));
    }
    std::fs::write(dir.join("expected.txt"), t).unwrap();
    for (ext, data) in [("key", &img.key), ("val", &img.val), ("htx", &img.htx)] {
        write_sparse(&dir.join(format!("{name}.{ext}.sparse")), data);
        std::fs::remove_file(dir.join(format!("{name}.{ext}"))).unwrap();
    }
    println!("bytes_wide16m: table {} entries {} free slots {free} max chain {} key file {} val file {}", dec.n, model.len(), dec.max_chain, img.key.len(), img.val.len());
}

/// the key bytes every key type makes of integers and strings (what ends up in the files and in the placement hash)
fn write_conversions(out: &Path) {
    use abyssiniandb::{DbBytes, DbI64, DbMapKeyType, DbString, DbU64, DbVu64};
    let mut ints: Vec<u64> = vec![0, 1, 5, 127, 128, 255, 256, 65535, 65536, 0x0102_0304_0506_0708, u64::MAX, u64::MAX - 1, 1 << 63, (1 << 63) - 1];
    for b in [7u32, 14, 21, 28, 35, 42, 49, 56] {
        ints.push((1 << b) - 1);
        ints.push(1 << b);
    }
    let mut t = String::from("# key bytes made by the pinned release (4b82afd): <type> <source> <input> <hex of as_bytes()>\n");
    for &x in ints.iter() {
        t.push_str(&format!("bytes u64 {x} {}\n", util::hex(DbBytes::from(x).as_bytes())));
        t.push_str(&format!("bytes ref_u64 {x} {}\n", util::hex(DbBytes::from(&x).as_bytes())));
        t.push_str(&format!("string u64 {x} {}\n", util::hex(DbString::from(x).as_bytes())));
        t.push_str(&format!("string ref_u64 {x} {}\n", util::hex(DbString::from(&x).as_bytes())));
        t.push_str(&format!("u64 u64 {x} {}\n", util::hex(DbU64::from(x).as_bytes())));
        t.push_str(&format!("u64 ref_u64 {x} {}\n", util::hex(DbU64::from(&x).as_bytes())));
        t.push_str(&format!("vu64 u64 {x} {}\n", util::hex(DbVu64::from(x).as_bytes())));
        t.push_str(&format!("vu64 ref_u64 {x} {}\n", util::hex(DbVu64::from(&x).as_bytes())));
        let i = x as i64;
        t.push_str(&format!("i64 i64 {i} {}\n", util::hex(DbI64::from(i).as_bytes())));
        t.push_str(&format!("i64 ref_i64 {i} {}\n", util::hex(DbI64::from(&i).as_bytes())));
    }
    for sx in ["", "a", "abc", "h\u{e9}llo", "with space", "\u{1F600}"] {
        let h = util::hex(sx.as_bytes());
        t.push_str(&format!("bytes str {h} {}\n", util::hex(DbBytes::from(sx).as_bytes())));
        t.push_str(&format!("string str {h} {}\n", util::hex(DbString::from(sx).as_bytes())));
        t.push_str(&format!("u64 str {h} {}\n", util::hex(DbU64::from(sx).as_bytes())));
        t.push_str(&format!("i64 str {h} {}\n", util::hex(DbI64::from(sx).as_bytes())));
    }
    std::fs::write(out.join("conversions.txt"), t).unwrap();
    println!("conversions.txt written");
}

fn main() {
    let out = std::env::args().nth(1).expect("output directory");
    let out = Path::new(&out);
    if std::env::args().nth(2).as_deref() == Some("only-wide") {
        generate_big(out);
        return;
    }
    if std::env::args().nth(2).as_deref() == Some("only-conversions") {
        write_conversions(out);
        return;
    }
    write_conversions(out);
    let mut seed = 4242;
    for kt in ["bytes", "string", "u64", "i64", "vu64"] {
        for (tag, b) in [("t8", HashBucketsParam::BucketsSize(8)), ("t128", HashBucketsParam::Capacity(100)), ("t4096", HashBucketsParam::BucketsSize(4096))] {
            seed += 1;
            generate(out, kt, b, tag, seed, "m");
        }
    }
    generate(out, "bytes", HashBucketsParam::Default, "default", 99, "m");
    // map names with dots (the part behind the last dot is not a file extension)
    generate(out, "string", HashBucketsParam::BucketsSize(8), "dotted", 77, "rel.2024");
    generate(out, "bytes", HashBucketsParam::BucketsSize(64), "dotted", 78, "m.v1.bak");
    generate_big(out);
}
