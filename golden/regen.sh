#!/bin/sh
# Re-generates the golden images from the PINNED commit. Documentation of how /verif/golden/images was
# produced; no check runs this. Usage: golden/regen.sh [only-wide]   (needs /repo with commit 4b82afd reachable)
set -e
PIN=4b82afd
W=/tmp/aby_pinned_$$
git -C /repo worktree add --detach $W $PIN >/dev/null
cp /repo/Cargo.lock $W/ 2>/dev/null || true
G=/tmp/aby_goldgen_$$
mkdir -p $G/src
cp /verif/golden/gen/src/main.rs $G/src/main.rs
sed -i 's#\.\./\.\./\.\./harness/src/#/verif/harness/src/#' $G/src/main.rs
cat > $G/Cargo.toml <<EOT
[package]
name = "goldgen"
version = "0.0.0"
edition = "2021"
[workspace]
[dependencies]
abyssiniandb = { path = "$W" }
EOT
cp /repo/Cargo.lock $G/Cargo.lock
(cd $G && CARGO_NET_OFFLINE=true cargo run --release --offline -- /verif/golden/images "$@")
git -C /repo worktree remove --force $W
rm -rf $G
