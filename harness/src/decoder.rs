//! Independent decoder of the on-disk format (default feature set: vu64 fields,
//! occupancy bitmap). Written from the layout comments in htx.rs / key.rs / val.rs.
//! Imports nothing from abyssiniandb, rabuf or vu64. Never panics on any input.
use crate::util::digest64;
use std::collections::{HashMap, HashSet};
use std::path::Path;

pub const CLASSES: [u32; 16] = [
    16, 24, 32, 48, 64, 80, 96, 112, 128, 256, 384, 512, 640, 768, 896, 1024,
];
pub const HTX_HEADER: u64 = 128;
pub const DAT_HEADER: u64 = 192;
pub const KEY_FREE_HEADS: u64 = 48;
pub const VAL_FREE_HEADS: u64 = 32;
pub const SIG_HTX: [u8; 8] = *b"abysdbH\0";
pub const SIG_KEY: [u8; 8] = *b"abysdbK\0";
pub const SIG_VAL: [u8; 8] = *b"abysdbV\0";

// ---------------------------------------------------------------- vu64 (own implementation)

/// encoded length of a vu64
pub fn vu_len(v: u64) -> usize {
    let bits = 64 - v.leading_zeros() as usize;
    if bits <= 7 {
        1
    } else if bits > 56 {
        9
    } else {
        (bits + 6) / 7
    }
}

pub fn vu_encode(v: u64) -> Vec<u8> {
    let l = vu_len(v);
    let mut out = Vec::with_capacity(l);
    match l {
        1 => out.push(v as u8),
        2..=7 => {
            let low_bits = 8 - l; // value bits in the first byte
            let prefix: u8 = !(0xFFu8 >> (l - 1)); // l-1 ones
            out.push(prefix | ((v as u8) & ((1u16 << low_bits) as u8).wrapping_sub(1)));
            let rest = v >> low_bits;
            for i in 0..(l - 1) {
                out.push((rest >> (8 * i)) as u8);
            }
        }
        8 => {
            out.push(0xFE);
            for i in 0..7 {
                out.push((v >> (8 * i)) as u8);
            }
        }
        _ => {
            out.push(0xFF);
            out.extend_from_slice(&v.to_le_bytes());
        }
    }
    out
}

/// decode a vu64 at `pos`; returns (value, encoded length)
pub fn vu_decode(b: &[u8], pos: usize) -> Option<(u64, usize)> {
    let b0 = *b.get(pos)?;
    let l = b0.leading_ones() as usize + 1;
    if pos + l > b.len() {
        return None;
    }
    let mut follow: u64 = 0;
    if l <= 8 {
        for i in (1..l).rev() {
            follow = (follow << 8) | b[pos + i] as u64;
        }
    }
    let v = match l {
        1 => b0 as u64,
        2..=7 => {
            let low_bits = 8 - l;
            (follow << low_bits) | (b0 as u64 & ((1u64 << low_bits) - 1))
        }
        8 => follow,
        _ => {
            let mut a = [0u8; 8];
            a.copy_from_slice(&b[pos + 1..pos + 9]);
            u64::from_le_bytes(a)
        }
    };
    Some((v, l))
}

// ---------------------------------------------------------------- placement hash (own implementation)

#[inline]
fn xs(mut x: u64) -> u64 {
    x ^= x >> 12;
    x ^= x << 25;
    x ^= x >> 27;
    x
}

/// hash of a key as `#[derive(Hash)]` on a `Vec<u8>` newtype feeds the crate's hasher on a
/// 64-bit little-endian target: first the length (8 native-endian bytes), then the bytes.
pub fn place_hash(key: &[u8]) -> u64 {
    let mut h: u64 = 0;
    let lenb = (key.len() as u64).to_le_bytes();
    h = xs(h.wrapping_add(u64::from_be_bytes(lenb)));
    for c in key.chunks(8) {
        let mut a: u64 = 0;
        for &x in c {
            a = (a << 8) | x as u64;
        }
        h = xs(h.wrapping_add(a));
    }
    h
}

fn xs_inv(mut y: u64) -> u64 {
    // undo x ^= x >> 27
    y ^= y >> 27;
    y ^= y >> 54;
    // undo x ^= x << 25
    y ^= y << 25;
    y ^= y << 50;
    // undo x ^= x >> 12
    let mut x = y;
    let mut s = 12;
    while s < 64 {
        x ^= y >> s;
        s += 12;
    }
    // the loop above xors y>>12, y>>24, ...: that is the closed form of the inverse of x ^= x >> 12
    x
}

/// `n` distinct 16-byte keys whose placement hash (all 64 bits) is the same
pub fn colliding_keys(rng: &mut crate::util::Rng, n: usize) -> Vec<Vec<u8>> {
    let target = rng.next();
    let len_word = u64::from_be_bytes(16u64.to_le_bytes());
    let h0 = xs(len_word);
    let mut out: Vec<Vec<u8>> = Vec::new();
    let mut tries = 0;
    while out.len() < n && tries < 64 {
        tries += 1;
        let a1 = rng.next();
        let h1 = xs(h0.wrapping_add(a1));
        let a2 = xs_inv(target).wrapping_sub(h1);
        let mut k = a1.to_be_bytes().to_vec();
        k.extend_from_slice(&a2.to_be_bytes());
        if place_hash(&k) == target && !out.contains(&k) {
            out.push(k);
        }
    }
    out
}

pub fn bucket_of(key: &[u8], n: u64) -> u64 {
    place_hash(key) % n
}

// ---------------------------------------------------------------- image

#[derive(Clone, Debug, Default)]
pub struct Image {
    pub htx: Vec<u8>,
    pub key: Vec<u8>,
    pub val: Vec<u8>,
}

impl Image {
    pub fn read(dir: &Path, name: &str) -> std::io::Result<Image> {
        Ok(Image {
            htx: std::fs::read(dir.join(format!("{name}.htx")))?,
            key: std::fs::read(dir.join(format!("{name}.key")))?,
            val: std::fs::read(dir.join(format!("{name}.val")))?,
        })
    }
    pub fn write(&self, dir: &Path, name: &str) -> std::io::Result<()> {
        std::fs::create_dir_all(dir)?;
        std::fs::write(dir.join(format!("{name}.htx")), &self.htx)?;
        std::fs::write(dir.join(format!("{name}.key")), &self.key)?;
        std::fs::write(dir.join(format!("{name}.val")), &self.val)?;
        Ok(())
    }
    pub fn digest(&self) -> u64 {
        let a = digest64(1, &self.htx);
        let b = digest64(a, &self.key);
        digest64(b, &self.val)
    }
    pub fn total_len(&self) -> u64 {
        (self.htx.len() + self.key.len() + self.val.len()) as u64
    }
    /// first differing (file, offset) or length difference
    pub fn diff(&self, other: &Image) -> Option<String> {
        for (nm, a, b) in [
            ("htx", &self.htx, &other.htx),
            ("key", &self.key, &other.key),
            ("val", &self.val, &other.val),
        ] {
            if a.len() != b.len() {
                return Some(format!("{nm}: length {} vs {}", a.len(), b.len()));
            }
            if a != b {
                let i = a.iter().zip(b.iter()).position(|(x, y)| x != y).unwrap();
                return Some(format!(
                    "{nm}: first difference at offset {i}: {:#04x} vs {:#04x}",
                    a[i], b[i]
                ));
            }
        }
        None
    }
}

// ---------------------------------------------------------------- decoded structure

#[derive(Clone, Copy, Debug, PartialEq, Eq, PartialOrd, Ord)]
pub enum Group {
    /// file cannot be parsed far enough to say anything else
    Fatal,
    Header,
    Chain,
    Placement,
    Dup,
    Count,
    Bitmap,
    ValRef,
    // --- storage management (C06)
    Tiling,
    Membership,
    FreeList,
}

impl Group {
    pub fn is_structure(self) -> bool {
        matches!(
            self,
            Group::Fatal
                | Group::Header
                | Group::Chain
                | Group::Placement
                | Group::Dup
                | Group::Count
                | Group::Bitmap
                | Group::ValRef
        )
    }
    pub fn is_storage(self) -> bool {
        matches!(
            self,
            Group::Fatal | Group::Tiling | Group::Membership | Group::FreeList
        )
    }
}

#[derive(Clone, Debug)]
pub struct Problem {
    pub group: Group,
    pub what: String,
}

#[derive(Clone, Debug)]
pub struct Entry {
    pub bucket: u64,
    pub chain_pos: usize,
    pub chain_len: usize,
    pub key_off: u64,
    pub key_size: u32,
    pub key_enc_len: u32,
    pub key: Vec<u8>,
    pub val_off: u64,
    pub val_size: u32,
    pub val_enc_len: u32,
    pub val_start: usize,
    pub val_len: usize,
    pub next: u64,
}

#[derive(Clone, Copy, Debug, PartialEq, Eq)]
pub enum SlotKind {
    Used,
    Free(usize),
    Orphan,
}

#[derive(Clone, Copy, Debug)]
pub struct Slot {
    pub off: u64,
    pub size: u32,
    pub kind: SlotKind,
}

#[derive(Clone, Debug, Default)]
pub struct FileSlots {
    pub slots: Vec<Slot>,
    /// free list i: offsets in list order
    pub free: Vec<Vec<u64>>,
    pub tiled: bool,
    pub nonzero_padding: u64,
    pub oversize_on_class_list: u64,
}

impl FileSlots {
    pub fn slot_at(&self, off: u64) -> Option<&Slot> {
        self.slots
            .binary_search_by_key(&off, |s| s.off)
            .ok()
            .map(|i| &self.slots[i])
    }
    pub fn count_by_class(&self, pred: impl Fn(&Slot) -> bool) -> [u64; 16] {
        let mut c = [0u64; 16];
        for s in self.slots.iter().filter(|s| pred(s)) {
            c[class_index(s.size)] += 1;
        }
        c
    }
}

/// index of the free list a slot of `size` belongs to
pub fn class_index(size: u32) -> usize {
    for (i, &c) in CLASSES.iter().enumerate() {
        if c == size {
            return i;
        }
    }
    15
}

#[derive(Clone, Debug, Default)]
pub struct Decoded {
    pub n: u64,
    pub count: u64,
    pub type_sig: [u8; 8],
    pub entries: Vec<Entry>,
    pub nonempty_buckets: u64,
    pub stale_bitmap_bits: u64,
    pub max_chain: usize,
    pub keyf: FileSlots,
    pub valf: FileSlots,
    pub problems: Vec<Problem>,
    /// number of elementary invariant evaluations performed
    pub checks: u64,
}

impl Decoded {
    pub fn structure_problems(&self) -> Vec<&Problem> {
        self.problems.iter().filter(|p| p.group.is_structure()).collect()
    }
    pub fn storage_problems(&self) -> Vec<&Problem> {
        self.problems.iter().filter(|p| p.group.is_storage()).collect()
    }
    pub fn value_of<'a>(&self, img: &'a Image, e: &Entry) -> &'a [u8] {
        &img.val[e.val_start..e.val_start + e.val_len]
    }
}

fn rd_u64(b: &[u8], off: usize) -> Option<u64> {
    let s = b.get(off..off + 8)?;
    let mut a = [0u8; 8];
    a.copy_from_slice(s);
    Some(u64::from_le_bytes(a))
}

struct KeyRec {
    size: u32,
    enc_len: u32,
    key_start: usize,
    key_len: usize,
    val_off: u64,
    next: u64,
}

fn parse_key_rec(key: &[u8], off: u64) -> Result<KeyRec, String> {
    if off < DAT_HEADER || off % 8 != 0 || off as usize >= key.len() {
        return Err(format!("key record offset {off} out of range / unaligned (file {})", key.len()));
    }
    let p = off as usize;
    let (sz8, l1) = vu_decode(key, p).ok_or_else(|| format!("key record {off}: truncated size field"))?;
    let size = sz8.checked_mul(8).filter(|&s| s > 0 && s <= u32::MAX as u64).ok_or_else(|| format!("key record {off}: bad size field {sz8}"))?;
    let end = p + size as usize;
    if end > key.len() {
        return Err(format!("key record {off}: slot size {size} overruns file ({})", key.len()));
    }
    let (klen, l2) = vu_decode(key, p + l1).ok_or_else(|| format!("key record {off}: truncated key length"))?;
    let key_start = p + l1 + l2;
    let key_end = key_start.checked_add(klen as usize).filter(|&e| e <= end).ok_or_else(|| format!("key record {off}: key length {klen} overruns slot of {size}"))?;
    let (v8, l3) = vu_decode(key, key_end).filter(|&(_, l)| key_end + l <= end).ok_or_else(|| format!("key record {off}: value offset field overruns slot of {size}"))?;
    let (n8, l4) = vu_decode(key, key_end + l3).filter(|&(_, l)| key_end + l3 + l <= end).ok_or_else(|| format!("key record {off}: next offset field overruns slot of {size}"))?;
    let val_off = v8.checked_mul(8).ok_or_else(|| format!("key record {off}: value offset overflow"))?;
    let next = n8.checked_mul(8).ok_or_else(|| format!("key record {off}: next offset overflow"))?;
    Ok(KeyRec {
        size: size as u32,
        enc_len: (key_end + l3 + l4 - p) as u32,
        key_start,
        key_len: klen as usize,
        val_off,
        next,
    })
}

struct ValRec {
    size: u32,
    enc_len: u32,
    start: usize,
    len: usize,
}

fn parse_val_rec(val: &[u8], off: u64) -> Result<ValRec, String> {
    if off < DAT_HEADER || off % 8 != 0 || off as usize >= val.len() {
        return Err(format!("value record offset {off} out of range / unaligned (file {})", val.len()));
    }
    let p = off as usize;
    let (sz8, l1) = vu_decode(val, p).ok_or_else(|| format!("value record {off}: truncated size field"))?;
    let size = sz8.checked_mul(8).filter(|&s| s > 0 && s <= u32::MAX as u64).ok_or_else(|| format!("value record {off}: bad size field {sz8}"))?;
    let end = p + size as usize;
    if end > val.len() {
        return Err(format!("value record {off}: slot size {size} overruns file ({})", val.len()));
    }
    let (vlen, l2) = vu_decode(val, p + l1).ok_or_else(|| format!("value record {off}: truncated length"))?;
    let start = p + l1 + l2;
    start.checked_add(vlen as usize).filter(|&e| e <= end).ok_or_else(|| format!("value record {off}: length {vlen} overruns slot of {size}"))?;
    Ok(ValRec {
        size: size as u32,
        enc_len: (start + vlen as usize - p) as u32,
        start,
        len: vlen as usize,
    })
}

/// walk the slots of a key/value file; returns slots and whether they tile [192, EOF) exactly
fn walk_slots(b: &[u8], what: &str, problems: &mut Vec<Problem>, checks: &mut u64) -> (Vec<Slot>, bool) {
    let mut slots = Vec::new();
    let mut off = DAT_HEADER as usize;
    if b.len() < off {
        problems.push(Problem { group: Group::Fatal, what: format!("{what} file shorter than its header: {}", b.len()) });
        return (slots, false);
    }
    while off < b.len() {
        *checks += 1;
        let Some((sz8, _l)) = vu_decode(b, off) else {
            problems.push(Problem { group: Group::Tiling, what: format!("{what} slot at {off}: truncated size field") });
            return (slots, false);
        };
        let size = sz8.saturating_mul(8);
        if size == 0 {
            problems.push(Problem { group: Group::Tiling, what: format!("{what} slot at {off}: size 0 (gap / stranded bytes, file length {})", b.len()) });
            return (slots, false);
        }
        if size > u32::MAX as u64 || off as u64 + size > b.len() as u64 {
            problems.push(Problem { group: Group::Tiling, what: format!("{what} slot at {off}: size {size} overruns file length {}", b.len()) });
            return (slots, false);
        }
        if !(CLASSES.contains(&(size as u32)) || (size > 1024 && size % 128 == 0)) {
            problems.push(Problem { group: Group::Tiling, what: format!("{what} slot at {off}: size {size} is neither a size class nor a multiple of 128 above 1024") });
        }
        slots.push(Slot { off: off as u64, size: size as u32, kind: SlotKind::Orphan });
        off += size as usize;
    }
    (slots, true)
}

fn walk_free_lists(b: &[u8], heads_at: u64, what: &str, fs: &mut FileSlots, problems: &mut Vec<Problem>, checks: &mut u64) {
    let mut seen: HashSet<u64> = HashSet::new();
    fs.free = vec![Vec::new(); 16];
    for i in 0..16 {
        let Some(mut cur) = rd_u64(b, (heads_at + 8 * i as u64) as usize) else {
            problems.push(Problem { group: Group::Fatal, what: format!("{what}: free list head {i} unreadable") });
            return;
        };
        let mut steps = 0usize;
        while cur != 0 {
            *checks += 1;
            steps += 1;
            if steps > fs.slots.len() + 1 {
                problems.push(Problem { group: Group::FreeList, what: format!("{what} free list {i}: longer than the number of slots (cycle)") });
                break;
            }
            if !seen.insert(cur) {
                problems.push(Problem { group: Group::FreeList, what: format!("{what} free list {i}: slot {cur} is linked twice (cycle or on two lists)") });
                break;
            }
            let idx = match fs.slots.binary_search_by_key(&cur, |s| s.off) {
                Ok(ix) => ix,
                Err(_) => {
                    problems.push(Problem { group: Group::FreeList, what: format!("{what} free list {i}: offset {cur} is not the start of a slot") });
                    break;
                }
            };
            let size = fs.slots[idx].size;
            if i < 15 {
                if size < CLASSES[i] {
                    problems.push(Problem { group: Group::FreeList, what: format!("{what} free list {i} (class {}): slot {cur} has only {size} bytes", CLASSES[i]) });
                } else if size > CLASSES[i] {
                    fs.oversize_on_class_list += 1;
                }
            } else if size < 1024 {
                problems.push(Problem { group: Group::FreeList, what: format!("{what} shared large free list: slot {cur} has only {size} bytes") });
            }
            // free slot layout: vu64(size/8) 0x00 u64le(next)
            let p = cur as usize;
            let (_sz8, l1) = vu_decode(b, p).unwrap_or((0, 1));
            let zero = b.get(p + l1).copied();
            let next = rd_u64(b, p + l1 + 1);
            if zero != Some(0) || next.is_none() || p + l1 + 9 > p + size as usize {
                problems.push(Problem { group: Group::FreeList, what: format!("{what} free list {i}: slot {cur} is not formatted as a free slot (length byte {zero:?})") });
                break;
            }
            if b[p + l1 + 9..p + size as usize].iter().any(|&x| x != 0) {
                fs.nonzero_padding += 1;
            }
            fs.slots[idx].kind = SlotKind::Free(i);
            fs.free[i].push(cur);
            cur = next.unwrap();
        }
    }
}

/// decode an image. `type_sig`: expected 8-byte type signature if known.
pub fn decode(img: &Image, type_sig: Option<[u8; 8]>) -> Decoded {
    let mut d = Decoded::default();
    let mut pr: Vec<Problem> = Vec::new();
    let mut checks = 0u64;

    // ---- headers
    let hdr_ok = |b: &[u8], sig: &[u8; 8], min: usize| b.len() >= min && &b[0..8] == sig;
    if !hdr_ok(&img.htx, &SIG_HTX, HTX_HEADER as usize) {
        pr.push(Problem { group: Group::Fatal, what: format!("htx: bad signature or short file ({} bytes)", img.htx.len()) });
    }
    if !hdr_ok(&img.key, &SIG_KEY, DAT_HEADER as usize) {
        pr.push(Problem { group: Group::Fatal, what: format!("key: bad signature or short file ({} bytes)", img.key.len()) });
    }
    if !hdr_ok(&img.val, &SIG_VAL, DAT_HEADER as usize) {
        pr.push(Problem { group: Group::Fatal, what: format!("val: bad signature or short file ({} bytes)", img.val.len()) });
    }
    checks += 3;
    if !pr.is_empty() {
        d.problems = pr;
        d.checks = checks;
        return d;
    }
    d.type_sig.copy_from_slice(&img.htx[8..16]);
    for (nm, b) in [("key", &img.key), ("val", &img.val)] {
        checks += 2;
        if b[8..16] != d.type_sig {
            pr.push(Problem { group: Group::Header, what: format!("{nm}: type signature {:?} differs from htx {:?}", &b[8..16], d.type_sig) });
        }
        if b[16..24].iter().any(|&x| x != 0) {
            pr.push(Problem { group: Group::Header, what: format!("{nm}: reserve0 at 16 is not zero") });
        }
    }
    if let Some(sig) = type_sig {
        checks += 1;
        if sig != d.type_sig {
            pr.push(Problem { group: Group::Header, what: format!("type signature {:?} != expected {:?}", d.type_sig, sig) });
        }
    }
    let n = rd_u64(&img.htx, 16).unwrap();
    let count = rd_u64(&img.htx, 24).unwrap();
    d.n = n;
    d.count = count;
    checks += 2;
    if n == 0 || !n.is_power_of_two() || n > (1 << 32) {
        pr.push(Problem { group: Group::Fatal, what: format!("htx: bucket count {n} is not a power of two in range") });
        d.problems = pr;
        d.checks = checks;
        return d;
    }
    let table_end = HTX_HEADER + 8 * n;
    let bitmap_len = n / 8;
    let full = table_end + bitmap_len;
    let hl = img.htx.len() as u64;
    if hl < table_end {
        pr.push(Problem { group: Group::Fatal, what: format!("htx: length {hl} shorter than header+table {table_end}") });
        d.problems = pr;
        d.checks = checks;
        return d;
    }
    // n < 8: the single bitmap byte is appended lazily
    let max_len = if n < 8 { table_end + 1 } else { full };
    let min_len = if n < 8 { table_end } else { full };
    if hl < min_len || hl > max_len {
        pr.push(Problem { group: Group::Header, what: format!("htx: length {hl}, layout says {min_len}..={max_len} for {n} buckets") });
    }

    // ---- chains
    let mut seen_keys: HashMap<u64, u64> = HashMap::new(); // key offset -> bucket
    let mut seen_vals: HashMap<u64, u64> = HashMap::new(); // value offset -> key offset
    let mut contents: HashMap<Vec<u8>, u64> = HashMap::new();
    let bit_of = |b: u64| -> bool {
        let at = (table_end + b / 8) as usize;
        img.htx.get(at).map(|x| (x >> (b % 8)) & 1 == 1).unwrap_or(false)
    };
    for b in 0..n {
        let head = rd_u64(&img.htx, (HTX_HEADER + 8 * b) as usize).unwrap();
        let flagged = bit_of(b);
        if head == 0 {
            if flagged {
                d.stale_bitmap_bits += 1;
            }
            continue;
        }
        checks += 1;
        d.nonempty_buckets += 1;
        if !flagged {
            pr.push(Problem { group: Group::Bitmap, what: format!("bucket {b} is non-empty (head {head}) but its occupancy bit is clear") });
        }
        let first_idx = d.entries.len();
        let mut cur = head;
        let mut pos = 0usize;
        while cur != 0 {
            checks += 4;
            if let Some(ob) = seen_keys.insert(cur, b) {
                pr.push(Problem { group: Group::Chain, what: format!("key record {cur} reached twice (bucket {ob} and bucket {b} position {pos}): cycle or shared record") });
                break;
            }
            let kr = match parse_key_rec(&img.key, cur) {
                Ok(k) => k,
                Err(e) => {
                    pr.push(Problem { group: Group::Chain, what: format!("bucket {b} position {pos}: {e}") });
                    break;
                }
            };
            let kbytes = img.key[kr.key_start..kr.key_start + kr.key_len].to_vec();
            let hb = bucket_of(&kbytes, n);
            if hb != b {
                pr.push(Problem { group: Group::Placement, what: format!("key {} stored in bucket {b} but hashes to bucket {hb} (n={n})", crate::util::show_bytes(&kbytes)) });
            }
            if let Some(o) = contents.insert(kbytes.clone(), cur) {
                pr.push(Problem { group: Group::Dup, what: format!("key {} appears twice: records {o} and {cur}", crate::util::show_bytes(&kbytes)) });
            }
            let (val_size, val_enc, val_start, val_len) = match parse_val_rec(&img.val, kr.val_off) {
                Ok(v) => (v.size, v.enc_len, v.start, v.len),
                Err(e) => {
                    pr.push(Problem { group: Group::ValRef, what: format!("key record {cur}: {e}") });
                    (0, 0, 0, 0)
                }
            };
            if val_size != 0 {
                if let Some(ok) = seen_vals.insert(kr.val_off, cur) {
                    pr.push(Problem { group: Group::ValRef, what: format!("value record {} is referenced by two key records: {ok} and {cur}", kr.val_off) });
                }
            }
            d.entries.push(Entry {
                bucket: b,
                chain_pos: pos,
                chain_len: 0,
                key_off: cur,
                key_size: kr.size,
                key_enc_len: kr.enc_len,
                key: kbytes,
                val_off: kr.val_off,
                val_size,
                val_enc_len: val_enc,
                val_start,
                val_len,
                next: kr.next,
            });
            pos += 1;
            cur = kr.next;
        }
        for e in d.entries[first_idx..].iter_mut() {
            e.chain_len = pos;
        }
        d.max_chain = d.max_chain.max(pos);
    }
    checks += 1;
    if d.entries.len() as u64 != count {
        pr.push(Problem { group: Group::Count, what: format!("stored item count {count} != {} reachable keys", d.entries.len()) });
    }

    // ---- storage: tiling, free lists, membership
    let (ks, kt) = walk_slots(&img.key, "key", &mut pr, &mut checks);
    d.keyf.slots = ks;
    d.keyf.tiled = kt;
    let (vs, vt) = walk_slots(&img.val, "val", &mut pr, &mut checks);
    d.valf.slots = vs;
    d.valf.tiled = vt;
    if kt {
        walk_free_lists(&img.key, KEY_FREE_HEADS, "key", &mut d.keyf, &mut pr, &mut checks);
    }
    if vt {
        walk_free_lists(&img.val, VAL_FREE_HEADS, "val", &mut d.valf, &mut pr, &mut checks);
    }
    // used marks
    for e in d.entries.iter() {
        checks += 2;
        if kt {
            match d.keyf.slots.binary_search_by_key(&e.key_off, |s| s.off) {
                Ok(ix) => {
                    let s = &mut d.keyf.slots[ix];
                    match s.kind {
                        SlotKind::Orphan => s.kind = SlotKind::Used,
                        SlotKind::Free(l) => pr.push(Problem { group: Group::Membership, what: format!("key slot {} is used by a live entry and is on free list {l}", e.key_off) }),
                        SlotKind::Used => {}
                    }
                    if e.key_enc_len < s.size && img.key[(e.key_off as usize + e.key_enc_len as usize)..(e.key_off as usize + s.size as usize)].iter().any(|&x| x != 0) {
                        d.keyf.nonzero_padding += 1;
                    }
                }
                Err(_) => pr.push(Problem { group: Group::Membership, what: format!("live key record {} does not start at a slot boundary", e.key_off) }),
            }
        }
        if vt && e.val_size != 0 {
            match d.valf.slots.binary_search_by_key(&e.val_off, |s| s.off) {
                Ok(ix) => {
                    let s = &mut d.valf.slots[ix];
                    match s.kind {
                        SlotKind::Orphan => s.kind = SlotKind::Used,
                        SlotKind::Free(l) => pr.push(Problem { group: Group::Membership, what: format!("value slot {} is used by a live entry and is on free list {l}", e.val_off) }),
                        SlotKind::Used => {}
                    }
                    if e.val_enc_len < s.size && img.val[(e.val_off as usize + e.val_enc_len as usize)..(e.val_off as usize + s.size as usize)].iter().any(|&x| x != 0) {
                        d.valf.nonzero_padding += 1;
                    }
                }
                Err(_) => pr.push(Problem { group: Group::Membership, what: format!("live value record {} does not start at a slot boundary", e.val_off) }),
            }
        }
    }
    for (nm, fs, tiled) in [("key", &d.keyf, kt), ("val", &d.valf, vt)] {
        if !tiled {
            continue;
        }
        for s in fs.slots.iter() {
            checks += 1;
            if s.kind == SlotKind::Orphan {
                pr.push(Problem { group: Group::Membership, what: format!("{nm} slot {} (size {}) is neither used by a live entry nor on a free list", s.off, s.size) });
            }
        }
    }
    d.problems = pr;
    d.checks = checks;
    d
}

/// compare decoded contents with a model; returns the first disagreement
pub fn contents_mismatch(img: &Image, d: &Decoded, model: &std::collections::BTreeMap<Vec<u8>, Vec<u8>>) -> Option<String> {
    let mut seen = 0usize;
    for e in d.entries.iter() {
        match model.get(&e.key) {
            None => return Some(format!("decoded key {} is not in the model", crate::util::show_bytes(&e.key))),
            Some(v) => {
                if e.val_size == 0 {
                    return Some(format!("decoded key {} has no readable value", crate::util::show_bytes(&e.key)));
                }
                if d.value_of(img, e) != v.as_slice() {
                    return Some(format!(
                        "decoded value of key {} is {} but the model holds {}",
                        crate::util::show_bytes(&e.key),
                        crate::util::show_bytes(d.value_of(img, e)),
                        crate::util::show_bytes(v)
                    ));
                }
                seen += 1;
            }
        }
    }
    if seen != model.len() {
        let have: HashSet<&Vec<u8>> = d.entries.iter().map(|e| &e.key).collect();
        for k in model.keys() {
            if !have.contains(k) {
                return Some(format!("model key {} is missing from the decoded files", crate::util::show_bytes(k)));
            }
        }
        return Some(format!("decoded {} distinct keys, model has {}", seen, model.len()));
    }
    None
}
