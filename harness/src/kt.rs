//! key types of the crate behind one harness trait, and configuration (table size, buffers).
use abyssiniandb::filedb::{
    CheckFileDbMap, FileBufSizeParam, FileDb, FileDbMap, FileDbParams, HashBucketsParam,
};
use abyssiniandb::{DbBytes, DbI64, DbMap, DbMapKeyType, DbString, DbU64, DbVu64, DbXxx};
use std::io::Result;

use crate::decoder::vu_encode;
use crate::util::Rng;

pub trait Kt:
    DbMapKeyType + std::fmt::Display + From<Vec<u8>> + for<'a> From<&'a [u8]> + 'static
{
    const NAME: &'static str;
    const SIG: [u8; 8];
    fn open(db: &FileDb, name: &str, p: FileDbParams) -> Result<FileDbMap<Self>>;
    /// bytes that are a valid stored key of this type
    fn make_key(rng: &mut Rng, want_len: usize) -> Vec<u8>;
}

fn rand_bytes(rng: &mut Rng, len: usize) -> Vec<u8> {
    let mut v = Vec::with_capacity(len);
    while v.len() < len {
        let x = rng.next().to_le_bytes();
        let n = (len - v.len()).min(8);
        v.extend_from_slice(&x[..n]);
    }
    v
}

impl Kt for DbBytes {
    const NAME: &'static str = "bytes";
    const SIG: [u8; 8] = *b"bytes\0\0\0";
    fn open(db: &FileDb, name: &str, p: FileDbParams) -> Result<FileDbMap<Self>> {
        db.db_map_bytes_with_params(name, p)
    }
    fn make_key(rng: &mut Rng, want_len: usize) -> Vec<u8> {
        rand_bytes(rng, want_len)
    }
}
impl Kt for DbString {
    const NAME: &'static str = "string";
    const SIG: [u8; 8] = *b"string\0\0";
    fn open(db: &FileDb, name: &str, p: FileDbParams) -> Result<FileDbMap<Self>> {
        db.db_map_string_with_params(name, p)
    }
    fn make_key(rng: &mut Rng, want_len: usize) -> Vec<u8> {
        let mut v = rand_bytes(rng, want_len);
        for b in v.iter_mut() {
            *b = b' ' + (*b % 95);
        }
        v
    }
}
impl Kt for DbU64 {
    const NAME: &'static str = "u64";
    const SIG: [u8; 8] = *b"u64_le\0\0";
    fn open(db: &FileDb, name: &str, p: FileDbParams) -> Result<FileDbMap<Self>> {
        db.db_map_u64_with_params(name, p)
    }
    fn make_key(rng: &mut Rng, _want_len: usize) -> Vec<u8> {
        // the u64 key type also takes byte strings of any length (From<&[u8]>): one key in eight is such a one
        if rng.chance(1, 8) {
            let l = *rng.pick(&[0usize, 1, 3, 7, 9, 12, 17]);
            return rand_bytes(rng, l);
        }
        int_sample(rng).to_le_bytes().to_vec()
    }
}
impl Kt for DbI64 {
    const NAME: &'static str = "i64";
    const SIG: [u8; 8] = *b"i64_le\0\0";
    fn open(db: &FileDb, name: &str, p: FileDbParams) -> Result<FileDbMap<Self>> {
        db.db_map_i64_with_params(name, p)
    }
    fn make_key(rng: &mut Rng, _want_len: usize) -> Vec<u8> {
        if rng.chance(1, 8) {
            let l = *rng.pick(&[0usize, 2, 4, 7, 9, 16]);
            return rand_bytes(rng, l);
        }
        (int_sample(rng) as i64).to_le_bytes().to_vec()
    }
}
impl Kt for DbVu64 {
    const NAME: &'static str = "vu64";
    const SIG: [u8; 8] = *b"u64_le\0\0";
    fn open(db: &FileDb, name: &str, p: FileDbParams) -> Result<FileDbMap<Self>> {
        db.db_map_vu64_with_params(name, p)
    }
    fn make_key(rng: &mut Rng, _want_len: usize) -> Vec<u8> {
        // (canonical codes only: the key type compares decoded numbers, so raw byte strings that are not exactly one
        // complete code are outside its domain - a truncated code panics in `cmp`, bytes behind a code are ignored by
        // `cmp` but not by the hash; the golden images hold a few such records, read back by their exact bytes)
        vu_encode(int_sample(rng))
    }
}

/// integers biased to bit-width boundaries
pub fn int_sample(rng: &mut Rng) -> u64 {
    match rng.below(4) {
        0 => rng.next(),
        1 => rng.below(300),
        2 => {
            let bits = rng.range(1, 64);
            let base = if bits == 64 { u64::MAX } else { (1u64 << bits) - 1 };
            base.wrapping_add(rng.below(3)).wrapping_sub(1)
        }
        _ => {
            let bits = rng.range(0, 63);
            rng.next() >> bits
        }
    }
}

pub const KT_NAMES: [&str; 5] = ["bytes", "string", "u64", "i64", "vu64"];

/// dispatch a generic function over the key type named `$name`
#[macro_export]
macro_rules! with_kt {
    ($name:expr, $f:ident ( $($arg:expr),* )) => {
        match $name {
            "bytes" => $f::<abyssiniandb::DbBytes>($($arg),*),
            "string" => $f::<abyssiniandb::DbString>($($arg),*),
            "u64" => $f::<abyssiniandb::DbU64>($($arg),*),
            "i64" => $f::<abyssiniandb::DbI64>($($arg),*),
            "vu64" => $f::<abyssiniandb::DbVu64>($($arg),*),
            other => panic!("unknown key type {other}"),
        }
    };
}

// ---------------------------------------------------------------- configuration

#[derive(Clone, Copy, Debug, PartialEq, Eq)]
pub enum Buckets {
    Size(u64),
    Capacity(u64),
    Default,
}

impl Buckets {
    pub fn to_param(self) -> HashBucketsParam {
        match self {
            Buckets::Size(n) => HashBucketsParam::BucketsSize(n),
            Buckets::Capacity(n) => HashBucketsParam::Capacity(n),
            Buckets::Default => HashBucketsParam::Default,
        }
    }
    /// table size the documentation promises for this parameter
    pub fn expected_n(self) -> u64 {
        match self {
            Buckets::Size(n) => n.checked_next_power_of_two().unwrap_or(1 << 63),
            Buckets::Capacity(c) => {
                if c < 8 {
                    8
                } else {
                    c.saturating_add(c / 8).checked_next_power_of_two().unwrap_or(1 << 63)
                }
            }
            Buckets::Default => 16 * 1024 * 1024,
        }
    }
    pub fn text(self) -> String {
        match self {
            Buckets::Size(n) => format!("B{n}"),
            Buckets::Capacity(n) => format!("C{n}"),
            Buckets::Default => "D".to_string(),
        }
    }
    pub fn parse(s: &str) -> Option<Buckets> {
        if s == "D" {
            return Some(Buckets::Default);
        }
        let n: u64 = s.get(1..)?.parse().ok()?;
        match s.as_bytes()[0] {
            b'B' => Some(Buckets::Size(n)),
            b'C' => Some(Buckets::Capacity(n)),
            _ => None,
        }
    }
}

#[derive(Clone, Copy, Debug, PartialEq, Eq)]
pub enum Buf {
    Auto,
    PerMille(u16),
    Size(u32),
}

impl Buf {
    pub fn to_param(self) -> FileBufSizeParam {
        match self {
            Buf::Auto => FileBufSizeParam::Auto,
            Buf::PerMille(p) => FileBufSizeParam::PerMille(p),
            Buf::Size(s) => FileBufSizeParam::Size(s),
        }
    }
    pub fn text(self) -> String {
        match self {
            Buf::Auto => "A".into(),
            Buf::PerMille(p) => format!("P{p}"),
            Buf::Size(s) => format!("S{s}"),
        }
    }
    pub fn parse(s: &str) -> Option<Buf> {
        if s == "A" {
            return Some(Buf::Auto);
        }
        let n: u64 = s.get(1..)?.parse().ok()?;
        match s.as_bytes()[0] {
            b'P' => Some(Buf::PerMille(n as u16)),
            b'S' => Some(Buf::Size(n as u32)),
            _ => None,
        }
    }
}

#[derive(Clone, Copy, Debug, PartialEq, Eq)]
pub struct Cfg {
    pub buckets: Buckets,
    pub key: Buf,
    pub val: Buf,
    pub htx: Buf,
}

impl Cfg {
    pub fn small(n: u64) -> Cfg {
        Cfg { buckets: Buckets::Size(n), key: Buf::PerMille(1000), val: Buf::Auto, htx: Buf::PerMille(1000) }
    }
    pub fn params(&self) -> FileDbParams {
        FileDbParams {
            buckets_size: self.buckets.to_param(),
            key_buf_size: self.key.to_param(),
            val_buf_size: self.val.to_param(),
            htx_buf_size: self.htx.to_param(),
            ..Default::default()
        }
    }
    pub fn text(&self) -> String {
        format!("{},{},{},{}", self.buckets.text(), self.key.text(), self.val.text(), self.htx.text())
    }
    pub fn parse(s: &str) -> Option<Cfg> {
        let p: Vec<&str> = s.split(',').collect();
        if p.len() != 4 {
            return None;
        }
        Some(Cfg { buckets: Buckets::parse(p[0])?, key: Buf::parse(p[1])?, val: Buf::parse(p[2])?, htx: Buf::parse(p[3])? })
    }
    /// buffer settings that are known to work (K2 region PerMille(<1000) excluded)
    pub fn random_buf(rng: &mut Rng) -> Buf {
        match rng.below(8) {
            0 | 1 => Buf::Auto,
            2 | 3 => Buf::PerMille(1000),
            4 => Buf::PerMille(rng.range(1000, 3000) as u16),
            5 => Buf::Size(262144),
            6 => Buf::Size(*rng.pick(&[0u32, 1, 131072, 262143, 400000, 524288, 1 << 20, 1 << 28, (1 << 28) + 4096, 1 << 31, u32::MAX])),
            _ => Buf::Size(rng.range(0, 2_000_000) as u32),
        }
    }
    pub fn random_buckets(rng: &mut Rng, allow_default: bool) -> Buckets {
        match rng.below(if allow_default { 21 } else { 20 }) {
            0..=9 => Buckets::Size(*rng.pick(&[1u64, 2, 3, 4, 7, 8, 9, 16, 64, 100, 128, 256, 1024, 4096, 65536])),
            10..=12 => Buckets::Size(rng.range(1, 70000)),
            13..=16 => Buckets::Capacity(*rng.pick(&[1u64, 4, 7, 8, 56, 57, 100, 113, 114, 1000, 58000])),
            17..=19 => Buckets::Capacity(rng.range(1, 60000)),
            _ => Buckets::Default,
        }
    }
    /// parameters for opening a map that exists already: the table-size parameter is ignored then, whatever it says -
    /// also values nobody could create a map with
    pub fn random_reopen(rng: &mut Rng) -> Cfg {
        let mut c = Cfg::random(rng, false);
        if rng.chance(1, 5) {
            c.buckets = *rng.pick(&[Buckets::Capacity(0), Buckets::Size(0), Buckets::Size(1 << 40), Buckets::Capacity(u64::MAX), Buckets::Capacity(u64::MAX / 8), Buckets::Default]);
        }
        c
    }
    pub fn random(rng: &mut Rng, allow_default: bool) -> Cfg {
        Cfg {
            buckets: Cfg::random_buckets(rng, allow_default),
            key: Cfg::random_buf(rng),
            val: Cfg::random_buf(rng),
            htx: Cfg::random_buf(rng),
        }
    }
}

// keep the trait imports used (generic code elsewhere relies on them)
#[allow(dead_code)]
fn _assert_traits<K: Kt>(m: &mut FileDbMap<K>) {
    let _ = m.get(&[][..]);
    let _ = m.iter();
    let _ = m.count_of_free_key_piece();
}
