//! abyverif: runtime monitors for abyssiniandb. One process = one shard of one check.
#![allow(dead_code)]
mod decoder;
mod kt;
mod ops;
mod props;
mod session;
mod sys;
mod util;

use std::collections::HashMap;
use std::path::PathBuf;

pub struct Args {
    pub cmd: String,
    pub seed: u64,
    pub thorough: bool,
    pub shard: usize,
    pub nshards: usize,
    pub out: Option<PathBuf>,
    pub scratch: PathBuf,
    pub replay_dir: PathBuf,
    pub extra: HashMap<String, String>,
    pub positional: Vec<String>,
}

impl Args {
    pub fn get(&self, k: &str) -> Option<&str> {
        self.extra.get(k).map(|s| s.as_str())
    }
    pub fn get_u64(&self, k: &str, d: u64) -> u64 {
        self.get(k).and_then(|s| s.parse().ok()).unwrap_or(d)
    }
    /// seed of this shard
    pub fn shard_seed(&self) -> u64 {
        self.seed.wrapping_mul(1_000_003).wrapping_add(self.shard as u64)
    }
    pub fn shard_name(&self) -> String {
        // (the stage number keeps replay files of two stages of one check apart)
        match self.get_u64("stage", 0) {
            0 => format!("s{}_{}", self.seed, self.shard),
            st => format!("s{}_{}_st{}", self.seed, self.shard, st),
        }
    }
}

fn parse_args() -> Args {
    let mut it = std::env::args().skip(1);
    let cmd = it.next().unwrap_or_else(|| {
        eprintln!("usage: abyverif <check|replay|child-cmd> [--seed N] [--tier quick|thorough] [--shard i/n] [--out file] [--scratch dir]");
        std::process::exit(2)
    });
    let mut a = Args {
        cmd,
        seed: 0,
        thorough: false,
        shard: 0,
        nshards: 1,
        out: None,
        scratch: std::env::temp_dir().join(format!("abyverif.{}", std::process::id())),
        replay_dir: PathBuf::from("/verif/replays"),
        extra: HashMap::new(),
        positional: vec![],
    };
    while let Some(x) = it.next() {
        if let Some(k) = x.strip_prefix("--") {
            let v = it.next().unwrap_or_default();
            match k {
                "seed" => a.seed = v.parse().unwrap_or(0),
                "tier" => a.thorough = v == "thorough",
                "shard" => {
                    if let Some((i, n)) = v.split_once('/') {
                        a.shard = i.parse().unwrap_or(0);
                        a.nshards = n.parse().unwrap_or(1);
                    }
                }
                "out" => a.out = Some(PathBuf::from(v)),
                "scratch" => a.scratch = PathBuf::from(v),
                "replay-dir" => a.replay_dir = PathBuf::from(v),
                _ => {
                    a.extra.insert(k.to_string(), v);
                }
            }
        } else {
            a.positional.push(x);
        }
    }
    a
}

fn main() {
    let args = parse_args();
    if args.cmd.ends_with("-child") || args.cmd == "c02-verify" {
        sys::child_lifetime(900);
    }
    session::install_panic_hook();
    let code = props::dispatch(&args);
    std::process::exit(code);
}
