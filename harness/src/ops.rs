//! operations, histories, their text form (replay files) and the random generators.
use crate::decoder::vu_len;
use crate::kt::{Cfg, Kt};
use crate::util::{gen_bytes, hex, unhex, Rng};
use std::collections::HashSet;

#[derive(Clone, Copy, Debug, PartialEq, Eq)]
pub struct ValSpec {
    pub len: u32,
    pub seed: u32,
    /// 0 arbitrary bytes, 1 ascii, 2 bytes with invalid utf-8 / NULs
    pub kind: u8,
}

impl ValSpec {
    pub fn bytes(&self) -> Vec<u8> {
        gen_bytes(self.len as usize, self.seed, self.kind)
    }
    fn text(&self) -> String {
        format!("{}:{}:{}", self.len, self.seed, self.kind)
    }
    fn parse(s: &str) -> Option<ValSpec> {
        let p: Vec<&str> = s.split(':').collect();
        if p.len() != 3 {
            return None;
        }
        Some(ValSpec { len: p[0].parse().ok()?, seed: p[1].parse().ok()?, kind: p[2].parse().ok()? })
    }
}

pub const ITER_FLAVOURS: [&str; 7] = ["iter", "iter_mut", "keys", "values", "into_iter", "ref_into_iter", "mut_into_iter"];

#[derive(Clone, Debug, PartialEq)]
pub enum Op {
    Put(usize, ValSpec),
    Del(usize),
    Get(usize),
    Has(usize),
    Len,
    IsEmpty,
    PutStr(usize, ValSpec),
    GetStr(usize),
    DelStr(usize),
    BulkGet(Vec<usize>),
    BulkGetStr(Vec<usize>),
    BulkPut(Vec<(usize, ValSpec)>),
    BulkPutStr(Vec<(usize, ValSpec)>),
    BulkDel(Vec<usize>),
    BulkDelStr(Vec<usize>),
    PutIter(Vec<(usize, ValSpec)>),
    Flush,
    SyncAll,
    SyncData,
    DbSyncAll,
    DbSyncData,
    ReadFill,
    /// drop every handle and reopen with these parameters
    Reopen(Cfg),
    /// traverse with the given flavour: (flavour index, abandon after n items or usize::MAX)
    Iter(usize, usize),
    Stats,
    /// advance an iterator that stays alive across calls by n steps
    IterStep(usize),
    /// put_from_iter fed by an iterator over the same map (values reversed in place)
    PutIterSelf,
    /// NOT a call of the crate: every handle is dropped, the key / value file is extended by a hole up to the given
    /// length (0 = left alone), the map is reopened. Stands in for a history long enough to grow the files that far
    /// (only used by histories whose monitors never walk the slots of a file).
    Hole(Cfg, u64, u64),
}

impl Op {
    pub fn is_update(&self) -> bool {
        matches!(
            self,
            Op::Put(..) | Op::Del(..) | Op::PutStr(..) | Op::DelStr(..) | Op::BulkPut(..) | Op::BulkPutStr(..) | Op::BulkDel(..) | Op::BulkDelStr(..) | Op::PutIter(..) | Op::PutIterSelf
        )
    }
    pub fn is_sync(&self) -> bool {
        matches!(self, Op::Flush | Op::SyncAll | Op::SyncData | Op::DbSyncAll | Op::DbSyncData)
    }
    pub fn kind_name(&self) -> &'static str {
        match self {
            Op::Put(..) => "put",
            Op::Del(..) => "delete",
            Op::Get(..) => "get",
            Op::Has(..) => "includes_key",
            Op::Len => "len",
            Op::IsEmpty => "is_empty",
            Op::PutStr(..) => "put_string",
            Op::GetStr(..) => "get_string",
            Op::DelStr(..) => "delete_string",
            Op::BulkGet(..) => "bulk_get",
            Op::BulkGetStr(..) => "bulk_get_string",
            Op::BulkPut(..) => "bulk_put",
            Op::BulkPutStr(..) => "bulk_put_string",
            Op::BulkDel(..) => "bulk_delete",
            Op::BulkDelStr(..) => "bulk_delete_string",
            Op::PutIter(..) => "put_from_iter",
            Op::Flush => "flush",
            Op::SyncAll => "sync_all",
            Op::SyncData => "sync_data",
            Op::DbSyncAll => "db_sync_all",
            Op::DbSyncData => "db_sync_data",
            Op::ReadFill => "read_fill_buffer",
            Op::Reopen(..) => "reopen",
            Op::Iter(..) => "iterate",
            Op::Stats => "stats",
            Op::IterStep(..) => "iterator_step",
            Op::PutIterSelf => "put_from_iter_self",
            Op::Hole(..) => "hole",
        }
    }
    pub fn text(&self) -> String {
        fn ks(v: &[usize]) -> String {
            v.iter().map(|x| x.to_string()).collect::<Vec<_>>().join(",")
        }
        fn kvs(v: &[(usize, ValSpec)]) -> String {
            v.iter().map(|(k, s)| format!("{k}={}", s.text())).collect::<Vec<_>>().join(",")
        }
        match self {
            Op::Put(k, v) => format!("put {k} {}", v.text()),
            Op::Del(k) => format!("del {k}"),
            Op::Get(k) => format!("get {k}"),
            Op::Has(k) => format!("has {k}"),
            Op::Len => "len".into(),
            Op::IsEmpty => "is_empty".into(),
            Op::PutStr(k, v) => format!("put_str {k} {}", v.text()),
            Op::GetStr(k) => format!("get_str {k}"),
            Op::DelStr(k) => format!("del_str {k}"),
            Op::BulkGet(v) => format!("bulk_get {}", ks(v)),
            Op::BulkGetStr(v) => format!("bulk_get_str {}", ks(v)),
            Op::BulkPut(v) => format!("bulk_put {}", kvs(v)),
            Op::BulkPutStr(v) => format!("bulk_put_str {}", kvs(v)),
            Op::BulkDel(v) => format!("bulk_del {}", ks(v)),
            Op::BulkDelStr(v) => format!("bulk_del_str {}", ks(v)),
            Op::PutIter(v) => format!("put_iter {}", kvs(v)),
            Op::Flush => "flush".into(),
            Op::SyncAll => "sync_all".into(),
            Op::SyncData => "sync_data".into(),
            Op::DbSyncAll => "db_sync_all".into(),
            Op::DbSyncData => "db_sync_data".into(),
            Op::ReadFill => "read_fill".into(),
            Op::Reopen(c) => format!("reopen {}", c.text()),
            Op::Iter(f, n) => format!("iter {f} {n}"),
            Op::Stats => "stats".into(),
            Op::IterStep(n) => format!("iter_step {n}"),
            Op::PutIterSelf => "put_iter_self".into(),
            Op::Hole(c, k, v) => format!("hole {} {k} {v}", c.text()),
        }
    }
    pub fn parse(s: &str) -> Option<Op> {
        fn ks(s: Option<&str>) -> Option<Vec<usize>> {
            let s = s.unwrap_or("");
            if s.is_empty() {
                return Some(vec![]);
            }
            s.split(',').map(|x| x.parse().ok()).collect()
        }
        fn kvs(s: Option<&str>) -> Option<Vec<(usize, ValSpec)>> {
            let s = s.unwrap_or("");
            if s.is_empty() {
                return Some(vec![]);
            }
            s.split(',')
                .map(|x| {
                    let (k, v) = x.split_once('=')?;
                    Some((k.parse().ok()?, ValSpec::parse(v)?))
                })
                .collect()
        }
        let mut it = s.split_whitespace();
        let w = it.next()?;
        Some(match w {
            "put" => Op::Put(it.next()?.parse().ok()?, ValSpec::parse(it.next()?)?),
            "del" => Op::Del(it.next()?.parse().ok()?),
            "get" => Op::Get(it.next()?.parse().ok()?),
            "has" => Op::Has(it.next()?.parse().ok()?),
            "len" => Op::Len,
            "is_empty" => Op::IsEmpty,
            "put_str" => Op::PutStr(it.next()?.parse().ok()?, ValSpec::parse(it.next()?)?),
            "get_str" => Op::GetStr(it.next()?.parse().ok()?),
            "del_str" => Op::DelStr(it.next()?.parse().ok()?),
            "bulk_get" => Op::BulkGet(ks(it.next())?),
            "bulk_get_str" => Op::BulkGetStr(ks(it.next())?),
            "bulk_put" => Op::BulkPut(kvs(it.next())?),
            "bulk_put_str" => Op::BulkPutStr(kvs(it.next())?),
            "bulk_del" => Op::BulkDel(ks(it.next())?),
            "bulk_del_str" => Op::BulkDelStr(ks(it.next())?),
            "put_iter" => Op::PutIter(kvs(it.next())?),
            "flush" => Op::Flush,
            "sync_all" => Op::SyncAll,
            "sync_data" => Op::SyncData,
            "db_sync_all" => Op::DbSyncAll,
            "db_sync_data" => Op::DbSyncData,
            "read_fill" => Op::ReadFill,
            "reopen" => Op::Reopen(Cfg::parse(it.next()?)?),
            "iter" => Op::Iter(it.next()?.parse().ok()?, it.next()?.parse().ok()?),
            "stats" => Op::Stats,
            "iter_step" => Op::IterStep(it.next()?.parse().ok()?),
            "put_iter_self" => Op::PutIterSelf,
            "hole" => Op::Hole(Cfg::parse(it.next()?)?, it.next()?.parse().ok()?, it.next()?.parse().ok()?),
            _ => return None,
        })
    }
}

#[derive(Clone, Debug)]
pub struct History {
    pub kt: String,
    pub cfg: Cfg,
    pub keys: Vec<Vec<u8>>,
    pub ops: Vec<Op>,
    /// free text: which generator/profile produced it
    pub origin: String,
}

impl History {
    pub fn to_text(&self, prop: &str, fail_at: Option<usize>, msg: &str) -> String {
        let mut s = String::new();
        s.push_str("abyverif-replay v1\n");
        s.push_str(&format!("prop {prop}\n"));
        s.push_str(&format!("kt {}\n", self.kt));
        s.push_str(&format!("cfg {}\n", self.cfg.text()));
        s.push_str(&format!("origin {}\n", self.origin.replace('\n', " ")));
        if let Some(i) = fail_at {
            s.push_str(&format!("fail_at {i}\n"));
        }
        for l in msg.lines() {
            s.push_str(&format!("msg {l}\n"));
        }
        for (i, k) in self.keys.iter().enumerate() {
            s.push_str(&format!("key {i} {}\n", hex(k)));
        }
        for o in self.ops.iter() {
            s.push_str(&format!("op {}\n", o.text()));
        }
        s
    }
    pub fn from_text(t: &str) -> Option<(String, History)> {
        let mut prop = String::new();
        let mut h = History { kt: "bytes".into(), cfg: Cfg::small(8), keys: vec![], ops: vec![], origin: String::new() };
        for line in t.lines() {
            let (w, rest) = line.split_once(' ').unwrap_or((line, ""));
            match w {
                "prop" => prop = rest.trim().to_string(),
                "kt" => h.kt = rest.trim().to_string(),
                "cfg" => h.cfg = Cfg::parse(rest.trim())?,
                "origin" => h.origin = rest.to_string(),
                "key" => {
                    let (_i, hx) = rest.split_once(' ').unwrap_or((rest, ""));
                    h.keys.push(unhex(hx.trim())?);
                }
                "op" => h.ops.push(Op::parse(rest)?),
                _ => {}
            }
        }
        Some((prop, h))
    }
    /// first ops in text form, for evidence samples
    pub fn sample(&self, n: usize) -> Vec<String> {
        self.ops.iter().take(n).map(|o| o.text()).collect()
    }
}

// ---------------------------------------------------------------- sizing (generator side only; not an oracle)

/// slot size the documented sizing gives an encoded record of `e` payload bytes
pub fn slot_for_payload(e: u64) -> u64 {
    let total = e + vu_len((e + 7) / 8) as u64;
    for &c in crate::decoder::CLASSES.iter().take(15) {
        if total <= c as u64 {
            return c as u64;
        }
    }
    ((total + 128) / 128) * 128
}

pub fn value_slot(len: u64) -> u64 {
    slot_for_payload(vu_len(len) as u64 + len)
}

/// key slot when the value offset / next offset estimates take wv / wn bytes
pub fn key_slot(klen: u64, wv: u64, wn: u64) -> u64 {
    slot_for_payload(vu_len(klen) as u64 + klen + wv + wn)
}

#[derive(Clone, Debug)]
pub struct Edges {
    /// value lengths l such that slot(l) != slot(l+1), and l+1
    pub val_small: Vec<u32>, // <= 1100
    pub val_mid: Vec<u32>,   // 1100..5000
    pub val_big: Vec<u32>,   // 5000..140000
    pub key_small: Vec<u32>, // <= 1100, for every (wv,wn)
    pub key_mid: Vec<u32>,
}

pub fn compute_edges() -> Edges {
    let mut e = Edges { val_small: vec![], val_mid: vec![], val_big: vec![], key_small: vec![], key_mid: vec![] };
    let mut prev = value_slot(0);
    for l in 1..140_000u64 {
        let s = value_slot(l);
        if s != prev {
            for x in [l - 1, l] {
                let x = x as u32;
                if x <= 1100 {
                    e.val_small.push(x)
                } else if x <= 5000 {
                    e.val_mid.push(x)
                } else {
                    e.val_big.push(x)
                }
            }
        }
        prev = s;
    }
    let mut ks: HashSet<u32> = HashSet::new();
    for wv in 1..=4u64 {
        for wn in 1..=4u64 {
            let mut prev = key_slot(0, wv, wn);
            for l in 1..5000u64 {
                let s = key_slot(l, wv, wn);
                if s != prev {
                    ks.insert(l as u32 - 1);
                    ks.insert(l as u32);
                }
                prev = s;
            }
        }
    }
    let mut all: Vec<u32> = ks.into_iter().collect();
    all.sort_unstable();
    for x in all {
        if x <= 1100 {
            e.key_small.push(x)
        } else {
            e.key_mid.push(x)
        }
    }
    e
}

// ---------------------------------------------------------------- random generation

#[derive(Clone, Debug)]
pub struct Profile {
    pub pool: usize,
    pub n_ops: usize,
    pub max_val: u32,
    pub max_key: u32,
    /// weights: put, delete, get/has, len/is_empty
    pub w_put: u32,
    pub w_del: u32,
    pub w_read: u32,
    pub w_len: u32,
    /// per-mille weights of optional op groups
    pub w_sync: u32,
    pub w_reopen: u32,
    pub w_bulk: u32,
    pub w_str: u32,
    pub w_iter: u32,
    pub w_stats: u32,
    /// share (percent) of values >= 1024 (busy shared free list)
    pub large_pct: u32,
    pub allow_default_table: bool,
    pub random_bufs: bool,
}

impl Profile {
    pub fn base(pool: usize, n_ops: usize) -> Profile {
        Profile {
            pool,
            n_ops,
            max_val: 20_000,
            max_key: 2_000,
            w_put: 45,
            w_del: 20,
            w_read: 25,
            w_len: 5,
            w_sync: 0,
            w_reopen: 0,
            w_bulk: 0,
            w_str: 0,
            w_iter: 0,
            w_stats: 0,
            large_pct: 12,
            allow_default_table: false,
            random_bufs: false,
        }
    }
}

pub struct Gen<'a> {
    pub rng: Rng,
    pub edges: &'a Edges,
    /// index of the empty key in the pool of the history being generated, if it has one
    pub empty_key: Option<usize>,
}

impl<'a> Gen<'a> {
    pub fn new(seed: u64, edges: &'a Edges) -> Gen<'a> {
        Gen { rng: Rng::new(seed), edges, empty_key: None }
    }

    pub fn val_len(&mut self, p: &Profile) -> u32 {
        let r = &mut self.rng;
        let l = if r.below(100) < p.large_pct as u64 {
            match r.below(10) {
                0..=2 => *r.pick(&self.edges.val_mid),
                3..=5 => r.range(1000, 5000) as u32,
                6 => *r.pick(&[1014u32, 1015, 1016, 1019, 1020, 1021, 1100, 1147, 1148, 2000, 4093, 4094, 4095, 4096, 4097, 5000, 8190, 8192, 20000]),
                7 | 8 => r.range(5000, 20000) as u32,
                _ => {
                    if p.max_val > 20_000 {
                        match r.below(4) {
                            0 => *r.pick(&self.edges.val_big),
                            1 => r.range(131_060, 131_080) as u32,
                            2 => r.range(20_000, 140_000) as u32,
                            _ => r.range(20_000, p.max_val as u64) as u32,
                        }
                    } else {
                        r.range(5000, 20000) as u32
                    }
                }
            }
        } else {
            match r.below(10) {
                0 => 0,
                1..=5 => *r.pick(&self.edges.val_small),
                6 | 7 => r.range(0, 64) as u32,
                _ => r.range(0, 1024) as u32,
            }
        };
        l.min(p.max_val)
    }

    pub fn val(&mut self, p: &Profile) -> ValSpec {
        let len = self.val_len(p);
        // (one value in twelve is all zero bytes: nothing may take "the slot is zero already" for granted)
        let kind = match self.rng.below(12) {
            0 | 1 => 2,
            2 => 4,
            _ => 0,
        };
        ValSpec { len, seed: self.rng.next() as u32, kind }
    }

    pub fn key_len(&mut self, p: &Profile) -> u32 {
        let r = &mut self.rng;
        let l = match r.below(20) {
            0 => 0,
            1..=8 => *r.pick(&self.edges.key_small),
            9..=14 => r.range(0, 40) as u32,
            15 | 16 => r.range(0, 300) as u32,
            17 => *r.pick(&self.edges.key_small).max(&100),
            18 => {
                if self.edges.key_mid.is_empty() {
                    1000
                } else {
                    *r.pick(&self.edges.key_mid)
                }
            }
            _ => {
                if r.chance(1, 10) {
                    r.range(4090, p.max_key.max(4100) as u64) as u32
                } else if r.chance(1, 3) {
                    // lengths at the width boundaries of the length field itself and at buffer chunk sizes
                    *r.pick(&[1u32, 126, 127, 128, 129, 4095, 4096, 4097, 16382, 16383, 16384, 16385])
                } else {
                    r.range(300, 2000) as u32
                }
            }
        };
        l.min(p.max_key)
    }

    pub fn keys<K: Kt>(&mut self, p: &Profile) -> Vec<Vec<u8>> {
        let mut seen: HashSet<Vec<u8>> = HashSet::new();
        let mut keys = Vec::new();
        let mut tries = 0;
        // byte-string key types: a family of distinct 16-byte keys with the same full 64-bit placement hash
        // (equal hash must never be taken for equal key)
        if (K::NAME == "bytes" || K::NAME == "string") && p.pool >= 6 && self.rng.chance(1, 2) {
            for k in crate::decoder::colliding_keys(&mut self.rng, 3) {
                if seen.insert(k.clone()) {
                    keys.push(k);
                }
            }
        }
        while keys.len() < p.pool && tries < p.pool * 20 + 100 {
            tries += 1;
            let want = self.key_len(p) as usize;
            let mut k = K::make_key(&mut self.rng, want);
            // key families: prefixes, extensions and last-byte variants of keys already in the pool
            // (byte-string key types only; the integer types have their own neighbours in make_key)
            if (K::NAME == "bytes" || K::NAME == "string") && !keys.is_empty() && self.rng.chance(1, 4) {
                let base: &Vec<u8> = &keys[self.rng.below(keys.len() as u64) as usize];
                k = base.clone();
                match self.rng.below(4) {
                    0 => k.extend_from_slice(&[b'a' + self.rng.below(26) as u8]),
                    1 => k.extend_from_slice(b"\0"),
                    2 => {
                        k.pop();
                    }
                    _ => {
                        if let Some(l) = k.last_mut() {
                            *l = if K::NAME == "string" { b'a' + (*l % 26) } else { l.wrapping_add(1) };
                        } else {
                            k.push(b'z');
                        }
                    }
                }
            }
            if seen.insert(k.clone()) {
                keys.push(k);
            }
        }
        keys
    }

    fn batch_keys(&mut self, pool: usize, repeats: bool) -> Vec<usize> {
        // batches that consist of the empty key only (once, or repeated where repeats are allowed)
        if let Some(e) = self.empty_key {
            if self.rng.chance(1, 10) {
                return if repeats && self.rng.chance(1, 2) { vec![e, e] } else { vec![e] };
            }
        }
        let n = match self.rng.below(6) {
            0 => 0,
            1 => 1,
            2 | 3 => self.rng.range(2, 12) as usize,
            4 => self.rng.range(12, 60) as usize,
            _ => self.rng.range(60, 200) as usize,
        };
        let mut v: Vec<usize> = Vec::new();
        let mut seen = HashSet::new();
        for _ in 0..n {
            let k = self.rng.below(pool as u64) as usize;
            if repeats || seen.insert(k) {
                v.push(k);
            }
        }
        v
    }

    pub fn history<K: Kt>(&mut self, p: &Profile, cfg: Cfg, origin: &str) -> History {
        let keys = self.keys::<K>(p);
        let pool = keys.len().max(1);
        self.empty_key = keys.iter().position(|k| k.is_empty());
        let mut ops = Vec::with_capacity(p.n_ops);
        let basic = p.w_put + p.w_del + p.w_read + p.w_len;
        // extra groups are per-mille of all ops
        let extra = p.w_sync + p.w_reopen + p.w_bulk + p.w_str + p.w_iter + p.w_stats;
        // phases bias the put/delete ratio so that maps grow, shrink and empty again
        let mut phase_bias: i32 = 0;
        while ops.len() < p.n_ops {
            if ops.len() % 512 == 0 {
                phase_bias = match self.rng.below(5) {
                    0 => 25,
                    1 => -25,
                    2 => -40,
                    _ => 0,
                };
            }
            let x = self.rng.below(1000) as u32;
            if x < extra {
                let mut y = x;
                if y < p.w_sync {
                    ops.push(match self.rng.below(5) {
                        0 => Op::Flush,
                        1 => Op::SyncAll,
                        2 => Op::SyncData,
                        3 => Op::DbSyncAll,
                        _ => Op::DbSyncData,
                    });
                    continue;
                }
                y -= p.w_sync;
                if y < p.w_reopen {
                    let c = if p.random_bufs {
                        Cfg::random_reopen(&mut self.rng)
                    } else {
                        Cfg { buckets: Cfg::random_buckets(&mut self.rng, false), ..cfg }
                    };
                    ops.push(Op::Reopen(c));
                    continue;
                }
                y -= p.w_reopen;
                if y < p.w_bulk {
                    let op = match self.rng.below(9) {
                        8 => Op::PutIterSelf,
                        0 | 1 => Op::BulkGet(self.batch_keys(pool, true)),
                        2 => Op::BulkGetStr(self.batch_keys(pool, true)),
                        3 => {
                            let ks = self.batch_keys(pool, false);
                            Op::BulkPut(ks.into_iter().map(|k| (k, self.val(p))).collect())
                        }
                        4 => {
                            let ks = self.batch_keys(pool, false);
                            Op::BulkPutStr(ks.into_iter().map(|k| (k, ValSpec { kind: 1, ..self.val(p) })).collect())
                        }
                        5 => Op::BulkDel(self.batch_keys(pool, false)),
                        6 => Op::BulkDelStr(self.batch_keys(pool, false)),
                        _ => {
                            let ks = self.batch_keys(pool, true);
                            Op::PutIter(ks.into_iter().map(|k| (k, self.val(p))).collect())
                        }
                    };
                    ops.push(op);
                    continue;
                }
                y -= p.w_bulk;
                if y < p.w_str {
                    let k = self.rng.below(pool as u64) as usize;
                    ops.push(match self.rng.below(3) {
                        0 => Op::PutStr(k, ValSpec { kind: 1, ..self.val(p) }),
                        1 => Op::GetStr(k),
                        _ => Op::DelStr(k),
                    });
                    continue;
                }
                y -= p.w_str;
                if y < p.w_iter {
                    let f = self.rng.below(ITER_FLAVOURS.len() as u64) as usize;
                    let n = if self.rng.chance(1, 4) { self.rng.below(10) as usize } else { usize::MAX };
                    ops.push(Op::Iter(f, n));
                    continue;
                }
                ops.push(Op::Stats);
                continue;
            }
            let k = self.rng.below(pool as u64) as usize;
            let w_put = (p.w_put as i32 + phase_bias).max(5) as u32;
            let w_del = (p.w_del as i32 - phase_bias).max(3) as u32;
            let tot = basic - p.w_put - p.w_del + w_put + w_del;
            let y = self.rng.below(tot as u64) as u32;
            if y < w_put {
                ops.push(Op::Put(k, self.val(p)));
            } else if y < w_put + w_del {
                ops.push(Op::Del(k));
            } else if y < w_put + w_del + p.w_read {
                ops.push(if self.rng.chance(2, 3) { Op::Get(k) } else { Op::Has(k) });
            } else {
                ops.push(if self.rng.chance(1, 2) { Op::Len } else { Op::IsEmpty });
            }
        }
        History { kt: K::NAME.to_string(), cfg, keys, ops, origin: origin.to_string() }
    }
}
