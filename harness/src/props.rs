//! one entry point per property check (and the child-process commands they spawn).
use crate::decoder::{self, Image};
use crate::kt::{Buckets, Buf, Cfg, Kt, KT_NAMES};
use crate::ops::{compute_edges, Edges, Gen, History, Op, Profile, ValSpec};
use crate::session::{finding, run_history, Ctx, Mon, Session, Stop};
use crate::util::{Rng, J};
use crate::with_kt;
use crate::Args;
use std::path::{Path, PathBuf};

mod bigreg;
mod c08;
mod c09;
mod c10;
mod c11;
mod c12;
mod c13;
mod c16;
mod faults;
mod multi;

pub fn dispatch(a: &Args) -> i32 {
    let _ = std::fs::create_dir_all(&a.scratch);
    let r = match a.cmd.as_str() {
        "c01" => c01(a),
        "c01x" => c01_exhaustive(a),
        "c02" => c02(a),
        "c02-verify" => return c02_verify_child(a),
        "c03" => faults::c03(a),
        "c03-child" => return faults::c03_child(a),
        "c03-genhist" => return faults::c03_genhist(a),
        "c04" => c04(a),
        "c05" => c05(a),
        "c06" => c06(a),
        "c06cyc" => c06_cyclic(a),
        "c07" => c07(a),
        "c07-k2child" => return c07_k2_child(a),
        "bigreg" => bigreg::run(a),
        "c08" => c08::run(a),
        "c09" => c09::run(a),
        "c09probe" => c09::probe(a),
        "c10" => c10::run(a),
        "c11" => c11::run(a),
        "c12" => c12::run(a),
        "c12-gen" => return c12::generate(a),
        "c13" => c13::run(a),
        "c14" => c14(a),
        "c15" => multi::c15(a),
        "c16" => c16::run(a),
        "faultput" => c16::faultput(a),
        "c16-child" => return c16::child(a),
        "c17" => c17(a),
        "c18" => multi::c18(a),
        "c18-child" => return multi::c18_child(a),
        "replay" => return replay(a),
        "san" => sanitizer_workload(a),
        other => {
            eprintln!("unknown command {other}");
            return 2;
        }
    };
    finish(a, r)
}

/// write the shard report; exit code 0 held / 1 violation / 2 inconclusive
pub fn finish(a: &Args, ctx: Ctx) -> i32 {
    let j = ctx.to_json().render();
    match &a.out {
        Some(p) => {
            if let Some(d) = p.parent() {
                let _ = std::fs::create_dir_all(d);
            }
            if let Err(e) = std::fs::write(p, &j) {
                eprintln!("cannot write {}: {e}", p.display());
                return 2;
            }
        }
        None => println!("{j}"),
    }
    let _ = std::fs::remove_dir_all(&a.scratch);
    if !ctx.violations.is_empty() {
        for (f, p) in ctx.violations.iter() {
            eprintln!("violation [{}] at {}: {} (replay {:?})", f.monitor, f.at, f.msg, p);
        }
        1
    } else if !ctx.inconclusive.is_empty() {
        2
    } else {
        0
    }
}

pub fn pick_kt(rng: &mut Rng, bytes_pct: u64) -> &'static str {
    if rng.below(100) < bytes_pct {
        "bytes"
    } else {
        KT_NAMES[rng.range(1, 4) as usize]
    }
}

pub fn gen_history_kt(kt: &str, gen: &mut Gen, p: &Profile, cfg: Cfg, origin: &str) -> History {
    fn g<K: Kt>(gen: &mut Gen, p: &Profile, cfg: Cfg, origin: &str) -> History {
        gen.history::<K>(p, cfg, origin)
    }
    with_kt!(kt, g(gen, p, cfg, origin))
}

pub fn run_history_kt(kt: &str, dir: &Path, h: &History, mon: &Mon, ctx: &mut Ctx) -> crate::session::RunResult {
    fn r<K: Kt>(dir: &Path, h: &History, mon: &Mon, ctx: &mut Ctx) -> crate::session::RunResult {
        run_history::<K>(dir, h, mon, ctx)
    }
    with_kt!(kt, r(dir, h, mon, ctx))
}

/// run one generated history, book-keep evidence; returns true if the history ended in a violation
pub fn run_and_record(a: &Args, h: &History, mon: &Mon, ctx: &mut Ctx, tag: &str) -> bool {
    let dir = a.scratch.join(format!("h_{tag}"));
    let before: u64 = ctx.notes_seen.values().sum();
    let res = run_history_kt(&h.kt, &dir, h, mon, ctx);
    ctx.evaluations += 1;
    ctx.count("calls_executed", res.calls as u64);
    ctx.count(&format!("histories.kt.{}", h.kt), 1);
    ctx.count(&format!("histories.table.{}", table_class(h.cfg.buckets.expected_n())), 1);
    let after: u64 = ctx.notes_seen.values().sum();
    // final image digest
    let big_files = ["m.val", "m.key"].iter().any(|f| std::fs::metadata(dir.join(f)).map(|m| m.len() > (1 << 30)).unwrap_or(false));
    if big_files {
        ctx.max("max_val_file", std::fs::metadata(dir.join("m.val")).map(|m| m.len()).unwrap_or(0));
    } else if let Ok(img) = Image::read(&dir, "m") {
        if img.htx.len() < 4_000_000 {
            let d = img.digest();
            ctx.digests.insert(d);
            if after > before && h.ops.iter().any(|o| o.is_update()) {
                ctx.nontrivial.insert(d);
            }
        }
        ctx.max("max_val_file", img.val.len() as u64);
        ctx.max("max_key_file", img.key.len() as u64);
    }
    if ctx.samples.len() < 3 {
        let mut s = J::obj();
        s.set("origin", J::s(&h.origin));
        s.set("kt", J::s(&h.kt));
        s.set("cfg", J::s(h.cfg.text()));
        s.set("keys", J::u(h.keys.len() as u64));
        s.set("ops", J::u(h.ops.len() as u64));
        s.set("first_ops", J::Arr(h.sample(30).into_iter().map(J::s).collect()));
        ctx.samples.push(s);
    }
    let _ = std::fs::remove_dir_all(&dir);
    let mut violated = false;
    if let Some(stop) = res.stop {
        violated = matches!(stop, Stop::Violation(_));
        ctx.record_stop(stop, Some(h));
    }
    violated
}

pub fn table_class(n: u64) -> &'static str {
    match n {
        0..=7 => "lt8",
        8..=127 => "8_127",
        128..=4095 => "128_4095",
        4096..=65536 => "4096_65536",
        _ => "default",
    }
}

pub fn edges() -> Edges {
    compute_edges()
}

// ---------------------------------------------------------------- regression corpus (D2, D4, D5)

/// the minimal histories that reproduced defects D2 (key relocation), D4 (large slot reuse), D5 (>4096 values)
pub fn regression_histories() -> Vec<History> {
    let mut out = Vec::new();
    // D2: keys of length 11 fill a 16-byte slot exactly while the value offset needs 2 bytes;
    // pushing the value file over 16 KiB and overwriting an early value with a longer one moves the key.
    for &n in &[1u64, 1024] {
        let mut keys = Vec::new();
        for i in 0..220u32 {
            keys.push(format!("key{i:08}").into_bytes()); // 11 bytes
        }
        let mut ops = Vec::new();
        for i in 0..220usize {
            ops.push(Op::Put(i, ValSpec { len: 100, seed: i as u32, kind: 0 }));
        }
        for i in [0usize, 1, 5, 100, 219, 3] {
            ops.push(Op::Put(i, ValSpec { len: 300, seed: 1000 + i as u32, kind: 0 }));
            ops.push(Op::Get(i));
        }
        for i in [2usize, 4, 218, 0, 7] {
            ops.push(Op::Del(i));
        }
        for i in [6usize, 8, 10] {
            ops.push(Op::Put(i, ValSpec { len: 500, seed: 2000 + i as u32, kind: 0 }));
        }
        ops.push(Op::Len);
        out.push(History { kt: "bytes".into(), cfg: Cfg::small(n), keys, ops, origin: format!("regression D2 (key relocation), table {n}") });
    }
    // D2b: as D2, but every relocating overwrite is followed at once by the insertion of a new key of the same record
    // size (it takes over the slot the moved record left) and an immediate update of that new key, with no lookup
    // of any other key in between: whatever is remembered about the slot's former tenant must be gone by then
    for &n in &[1024u64, 4096] {
        let mut keys = Vec::new();
        for i in 0..260u32 {
            keys.push(format!("key{i:08}").into_bytes());
        }
        let mut ops = Vec::new();
        for i in 0..220usize {
            ops.push(Op::Put(i, ValSpec { len: 100, seed: i as u32, kind: 0 }));
        }
        for (j, i) in [0usize, 1, 5, 100, 219, 3, 7, 9, 11, 13, 15, 17, 19, 21].into_iter().enumerate() {
            ops.push(Op::Put(i, ValSpec { len: 300, seed: 1000 + i as u32, kind: 0 }));
            // (a value of the old length: it takes over the value slot the overwrite just freed, at a low offset, so
            // that the new key record is as short as the moved one was)
            ops.push(Op::Put(220 + j, ValSpec { len: 100, seed: 3000 + j as u32, kind: 0 }));
            ops.push(Op::Put(220 + j, ValSpec { len: 99, seed: 4000 + j as u32, kind: 0 }));
            if j % 3 == 2 {
                ops.push(Op::Del(220 + j));
            }
        }
        ops.push(Op::Len);
        out.push(History { kt: "bytes".into(), cfg: Cfg::small(n), keys, ops, origin: format!("regression D2b (slot of a moved record taken over by a new key), table {n}") });
    }
    // Z: values that are all zero bytes written over non-zero ones in place, and the other way round, at sizes around the
    // buffer chunk sizes
    {
        let keys: Vec<Vec<u8>> = (0..4u8).map(|i| vec![b'z', i]).collect();
        let mut ops = Vec::new();
        for (k, l) in [(0usize, 70_000u32), (1, 140_000), (2, 5000), (3, 1_100_000)] {
            ops.push(Op::Put(k, ValSpec { len: l, seed: k as u32 + 1, kind: 0 }));
            ops.push(Op::Put(k, ValSpec { len: l - 7, seed: 0, kind: 4 }));
            ops.push(Op::Get(k));
            ops.push(Op::Put(k, ValSpec { len: l - 9, seed: 9, kind: 0 }));
            ops.push(Op::Get(k));
            ops.push(Op::Put(k, ValSpec { len: l, seed: 0, kind: 4 }));
            ops.push(Op::Get(k));
        }
        ops.push(Op::Reopen(Cfg::small(8)));
        for k in 0..4 {
            ops.push(Op::Get(k));
        }
        out.push(History { kt: "bytes".into(), cfg: Cfg::small(8), keys, ops, origin: "regression Z (all-zero values over non-zero ones in place)".into() });
    }
    // D4: large free slots reused for smaller large values
    {
        let keys: Vec<Vec<u8>> = (0..4u8).map(|i| vec![b'k', i]).collect();
        let mut ops = Vec::new();
        let lens = [5000u32, 1100, 20000, 2000, 70000, 1100, 5000, 1200, 20000, 1100];
        for (j, &l) in lens.iter().enumerate() {
            ops.push(Op::Put(j % 3, ValSpec { len: l, seed: j as u32, kind: 0 }));
        }
        ops.push(Op::Del(0));
        ops.push(Op::Put(3, ValSpec { len: 1100, seed: 77, kind: 0 }));
        ops.push(Op::Stats);
        ops.push(Op::Flush);
        out.push(History { kt: "bytes".into(), cfg: Cfg::small(8), keys, ops, origin: "regression D4 (large slot reuse)".into() });
    }
    // D5: values larger than one buffer chunk
    {
        let keys: Vec<Vec<u8>> = (0..3u8).map(|i| vec![b'v', i]).collect();
        let ops = vec![
            Op::Put(0, ValSpec { len: 4097, seed: 1, kind: 0 }),
            Op::Put(1, ValSpec { len: 131073, seed: 2, kind: 0 }),
            Op::Get(0),
            Op::Get(1),
            Op::Put(0, ValSpec { len: 300000, seed: 3, kind: 0 }),
            Op::Get(0),
            Op::Del(1),
            Op::Get(0),
        ];
        out.push(History { kt: "bytes".into(), cfg: Cfg::small(8), keys, ops, origin: "regression D5 (value > chunk)".into() });
    }
    out
}

// ---------------------------------------------------------------- C01

fn c01_profile(rng: &mut Rng, n_ops: usize, thorough: bool) -> Profile {
    let pool = *rng.pick(&[3usize, 10, 50, 300, 300, 3000]);
    let mut p = Profile::base(pool, n_ops);
    p.w_sync = 2;
    p.w_reopen = 2;
    p.max_val = if rng.chance(1, 8) { if thorough { 1 << 20 } else { 300_000 } } else { 20_000 };
    p.max_key = if rng.chance(1, 10) { 65_535 } else { 2_000 };
    p.large_pct = *rng.pick(&[5u32, 12, 12, 30]);
    p
}

pub fn c01(a: &Args) -> Ctx {
    let mut ctx = Ctx::new("C01", &["C01"], &a.replay_dir, &a.shard_name());
    let ed = edges();
    let mut rng = Rng::new(a.shard_seed() ^ 0xC01);
    let n_hist = a.get_u64("histories", 4) as usize;
    let n_ops = a.get_u64("ops", 20_000) as usize;
    let mon = Mon { get_after_put: true, final_sweep: true, ..Default::default() };
    // the same monitors without the extra get after every put (a lookup can repair what a put left behind:
    // some histories must run without reads the history itself does not contain)
    let mon_quiet = Mon { final_sweep: true, ..Default::default() };
    if a.shard == 0 {
        for (i, h) in regression_histories().iter().enumerate() {
            if run_and_record(a, h, &mon, &mut ctx, &format!("reg{i}")) {
                return ctx;
            }
            let mut hq = h.clone();
            hq.ops.retain(|o| o.is_update());
            hq.origin = format!("{} (updates only)", hq.origin);
            if run_and_record(a, &hq, &mon_quiet, &mut ctx, &format!("regq{i}")) {
                return ctx;
            }
        }
    }
    // big populations: one chain of several thousand keys (1-bucket table), and more entries than 65536
    if a.shard == 2 || a.shard == 3 {
        let (pool, buckets, ops) = if a.shard == 2 { (6000usize, Buckets::Size(1), 14_000usize) } else { (70_000, Buckets::Capacity(70_000), 160_000) };
        let mut p = Profile::base(pool, ops);
        p.max_val = 40;
        p.max_key = 24;
        p.large_pct = 0;
        p.w_put = 70;
        p.w_del = 10;
        let kt = if a.seed % 2 == 0 { "u64" } else { "bytes" };
        let mut gen = Gen::new(rng.next(), &ed);
        let h = gen_history_kt(kt, &mut gen, &p, Cfg { buckets, key: Buf::PerMille(1000), val: Buf::Auto, htx: Buf::PerMille(1000) }, &format!("c01 big population pool={pool} shard={}", a.shard));
        ctx.count("big_population_histories", 1);
        if run_and_record(a, &h, &mon, &mut ctx, "big") {
            return ctx;
        }
    }
    for i in 0..n_hist {
        let kt = pick_kt(&mut rng, 60);
        let p = c01_profile(&mut rng, n_ops, a.thorough);
        let cfg = Cfg { buckets: Cfg::random_buckets(&mut rng, true), key: Buf::PerMille(1000), val: Buf::Auto, htx: Buf::PerMille(1000) };
        let mut gen = Gen::new(rng.next(), &ed);
        let h = gen_history_kt(kt, &mut gen, &p, cfg, &format!("c01 random pool={} shard={} i={i}", p.pool, a.shard));
        if run_and_record(a, &h, if i % 4 == 3 { &mon_quiet } else { &mon }, &mut ctx, &format!("{i}")) {
            break;
        }
    }
    ctx
}

/// bounded-exhaustive: every history of exactly `depth` calls over a small alphabet, all keys colliding
pub fn c01_exhaustive(a: &Args) -> Ctx {
    let mut ctx = Ctx::new("C01", &["C01"], &a.replay_dir, &a.shard_name());
    let depth = a.get_u64("depth", 4) as usize;
    // key lengths on slot edges (11: fills a 16-byte slot), values: empty, on an edge, large
    let keys: Vec<Vec<u8>> = vec![b"k0000000000".to_vec(), b"k1".to_vec(), vec![]];
    let vals = [ValSpec { len: 0, seed: 1, kind: 0 }, ValSpec { len: 14, seed: 2, kind: 0 }, ValSpec { len: 1100, seed: 3, kind: 0 }];
    let mut alphabet: Vec<Op> = Vec::new();
    for k in 0..keys.len() {
        for v in vals.iter() {
            alphabet.push(Op::Put(k, *v));
        }
        alphabet.push(Op::Del(k));
        alphabet.push(Op::Get(k));
    }
    let total = (alphabet.len() as u64).pow(depth as u32);
    let mon = Mon { get_after_put: true, final_sweep: true, ..Default::default() };
    ctx.count("exhaustive.alphabet", alphabet.len() as u64);
    ctx.count("exhaustive.depth", depth as u64);
    for &n in &[1u64, 8] {
        let mut idx = a.shard as u64;
        while idx < total {
            let mut ops = Vec::with_capacity(depth);
            let mut x = idx;
            for _ in 0..depth {
                ops.push(alphabet[(x % alphabet.len() as u64) as usize].clone());
                x /= alphabet.len() as u64;
            }
            let h = History { kt: "bytes".into(), cfg: Cfg::small(n), keys: keys.clone(), ops, origin: format!("c01 exhaustive depth {depth} index {idx} table {n}") };
            let dir = a.scratch.join("x");
            let res = run_history::<abyssiniandb::DbBytes>(&dir, &h, &mon, &mut ctx);
            ctx.evaluations += 1;
            ctx.count("exhaustive.histories", 1);
            if idx % 997 == 0 {
                if let Ok(img) = Image::read(&dir, "m") {
                    let d = img.digest();
                    ctx.digests.insert(d);
                    ctx.nontrivial.insert(d);
                }
            }
            if ctx.samples.len() < 2 {
                let mut s = J::obj();
                s.set("origin", J::s(&h.origin));
                s.set("ops", J::Arr(h.sample(10).into_iter().map(J::s).collect()));
                ctx.samples.push(s);
            }
            if let Some(stop) = res.stop {
                let v = matches!(stop, Stop::Violation(_));
                ctx.record_stop(stop, Some(&h));
                if v {
                    return ctx;
                }
            }
            idx += a.nshards as u64;
        }
    }
    ctx
}

// ---------------------------------------------------------------- replay

pub fn replay(a: &Args) -> i32 {
    let Some(path) = a.positional.first() else {
        eprintln!("replay: need a file");
        return 2;
    };
    let Ok(text) = std::fs::read_to_string(path) else {
        eprintln!("replay: cannot read {path}");
        return 2;
    };
    let Some((prop, h)) = History::from_text(&text) else {
        eprintln!("replay: cannot parse {path}");
        return 2;
    };
    let (own, mon) = monitors_for(&prop);
    let mut ctx = Ctx::new(&prop, &own, &a.scratch, "replay");
    let dir = a.scratch.join("replay");
    let res = run_history_kt(&h.kt, &dir, &h, &mon, &mut ctx);
    let _ = std::fs::remove_dir_all(&a.scratch);
    match res.stop {
        Some(Stop::Violation(f)) => {
            println!("REPLAY violated property={prop} monitor={} at={} :: {}", f.monitor, f.at, f.msg);
            1
        }
        Some(Stop::Foreign(f)) => {
            println!("REPLAY foreign finding owners={:?} monitor={} at={} :: {}", f.owners, f.monitor, f.at, f.msg);
            0
        }
        Some(Stop::Harness(m)) => {
            println!("REPLAY harness problem: {m}");
            2
        }
        None => {
            println!("REPLAY held property={prop} calls={}", res.calls);
            0
        }
    }
}

/// monitors a history-based check attaches (also used by replay)
pub fn monitors_for(prop: &str) -> (Vec<&'static str>, Mon) {
    match prop {
        "C01" => (vec!["C01"], Mon { get_after_put: true, final_sweep: true, ..Default::default() }),
        "C02" => (vec!["C02"], Mon { full_compare_at_reopen: true, ..Default::default() }),
        "C04" => (vec!["C04"], Mon { iterate_at_sync: true, ..Default::default() }),
        "C05" => (vec!["C05"], Mon { decode_at_sync: true, decode_at_close: true, ..Default::default() }),
        "C06" => (vec!["C06"], Mon { decode_at_sync: true, decode_at_close: true, decode_per_call: true, ..Default::default() }),
        "C07" => (vec!["C07", "C01", "C02"], Mon { get_after_put: true, final_sweep: true, full_compare_at_reopen: true, ..Default::default() }),
        "C14" => (vec!["C14"], Mon::default()),
        "C17" => (vec!["C17"], Mon { decode_at_sync: true, stats_at_sync: true, ..Default::default() }),
        _ => (vec![], Mon::default()),
    }
}

// placeholders filled below / in submodules
pub fn c02(a: &Args) -> Ctx { hist_check::c02(a) }
pub fn c02_verify_child(a: &Args) -> i32 { hist_check::c02_verify_child(a) }
pub fn c04(a: &Args) -> Ctx { hist_check::c04(a) }
pub fn c05(a: &Args) -> Ctx { hist_check::c05(a) }
pub fn c06(a: &Args) -> Ctx { hist_check::c06(a) }
pub fn c06_cyclic(a: &Args) -> Ctx { hist_check::c06_cyclic(a) }
pub fn c07(a: &Args) -> Ctx { hist_check::c07(a) }
pub fn c07_k2_child(a: &Args) -> i32 { hist_check::c07_k2_child(a) }
pub fn c14(a: &Args) -> Ctx { hist_check::c14(a) }
pub fn c17(a: &Args) -> Ctx { hist_check::c17(a) }
pub fn sanitizer_workload(a: &Args) -> Ctx { hist_check::sanitizer_workload(a) }

mod hist_check;

#[allow(dead_code)]
fn _unused(_: PathBuf, _: Buckets, _: &dyn Fn() -> decoder::Decoded, _: Session<abyssiniandb::DbBytes>) {
    let _ = finding;
}
