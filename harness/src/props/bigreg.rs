//! "big regime" workloads: the states in which the widest encodings are in play — record offsets of 16 MiB and
//! more (4-byte offset fields), keys of 64 KiB and of more than 128 KiB (3-byte slot-size prefix, key length
//! beyond 16 bits), values of 2 MiB and 16 MiB (4-byte length, 3/4-byte slot size), offset fields that straddle a
//! buffer chunk boundary, free lists of more than a thousand slots, and (thorough, `--huge 1`) files beyond 4 GiB.
//! The histories are ordinary call histories judged by the ordinary monitors; `--as Cxx` names the property whose
//! findings count (the other monitors only observe).
use crate::kt::{Buckets, Buf, Cfg, Kt};
use crate::ops::{History, Op, ValSpec};
use crate::session::{Ctx, Mon};
use crate::util::{gen_bytes, Rng};
use crate::with_kt;
use crate::Args;

fn vs(len: u32, seed: u32) -> ValSpec {
    ValSpec { len, seed, kind: 0 }
}

fn distinct_keys<K: Kt>(rng: &mut Rng, lens: &[usize], seen: &mut std::collections::HashSet<Vec<u8>>, out: &mut Vec<Vec<u8>>) -> Vec<usize> {
    let mut idx = Vec::new();
    for &l in lens {
        for _ in 0..50 {
            let k = K::make_key(rng, l);
            if seen.insert(k.clone()) {
                idx.push(out.len());
                out.push(k);
                break;
            }
        }
    }
    idx
}

/// variant A: small table; value file and (byte-string key types) key file pushed beyond 16 MiB, then a population of
/// short keys on slot edges lives, collides, moves and dies there; one 2 MiB and one 16 MiB value
pub fn regime_a<K: Kt>(seed: u64, huge_val: bool) -> History {
    let mut rng = Rng::new(seed ^ 0xB16A);
    let bytes_like = K::NAME == "bytes" || K::NAME == "string";
    let mut seen = std::collections::HashSet::new();
    let mut keys: Vec<Vec<u8>> = Vec::new();
    let mut ops: Vec<Op> = Vec::new();
    // an early population, written while all offsets are short
    let early = distinct_keys::<K>(&mut rng, &[10, 11, 10, 18, 3, 11, 19, 26, 4, 12], &mut seen, &mut keys);
    for (j, &k) in early.iter().enumerate() {
        ops.push(Op::Put(k, vs([14u32, 15, 0, 300, 1100][j % 5], j as u32)));
    }
    // fillers: 17..19 values of 1 MiB
    let nfill = 17 + (seed % 3) as usize;
    let fill = distinct_keys::<K>(&mut rng, &vec![12; nfill], &mut seen, &mut keys);
    for (j, &k) in fill.iter().enumerate() {
        ops.push(Op::Put(k, vs((1 << 20) - 64 * (j as u32 % 5), 100 + j as u32)));
    }
    // long keys (byte strings only): 64 KiB, 128 KiB neighbours, and enough of them for a key file > 16 MiB
    let mut long: Vec<usize> = Vec::new();
    if bytes_like {
        let mut lens: Vec<usize> = vec![65_535, 65_536, 65_537, 70_000, 131_050, 131_071, 131_072, 131_100, 200_000];
        for j in 0..134usize {
            lens.push(if j % 2 == 0 { 140_000 + j } else { 126_000 + j });
        }
        long = distinct_keys::<K>(&mut rng, &lens, &mut seen, &mut keys);
        for (j, &k) in long.iter().enumerate() {
            ops.push(Op::Put(k, vs([5u32, 0, 14, 1100, 23][j % 5], 300 + j as u32)));
        }
    }
    // the late population: short keys on slot edges, colliding in the small table, all behind 16 MiB
    let late_lens: Vec<usize> = (0..90).map(|j| [3usize, 4, 5, 9, 10, 11, 12, 13, 17, 18, 19, 25, 26, 27, 41, 120][j % 16]).collect();
    let late = distinct_keys::<K>(&mut rng, &late_lens, &mut seen, &mut keys);
    for (j, &k) in late.iter().enumerate() {
        ops.push(Op::Put(k, vs([0u32, 5, 14, 15, 22, 23, 100, 1100][j % 8], 500 + j as u32)));
    }
    for &k in late.iter().chain(early.iter()) {
        ops.push(Op::Get(k));
    }
    ops.push(Op::Flush);
    ops.push(Op::Stats);
    // early entries are overwritten with longer values: their key records get a wider value offset
    for (j, &k) in early.iter().enumerate() {
        ops.push(Op::Put(k, vs(400 + 16 * j as u32, 700 + j as u32)));
        ops.push(Op::Get(k));
    }
    for &k in early.iter() {
        ops.push(Op::Has(k));
    }
    // 2 MiB and 16 MiB values
    let big = distinct_keys::<K>(&mut rng, &[8, 9, 10], &mut seen, &mut keys);
    ops.push(Op::Put(big[0], vs((1 << 21) + 1, 901)));
    ops.push(Op::Get(big[0]));
    ops.push(Op::Put(big[1], vs((1 << 21) - 5, 902)));
    if huge_val {
        ops.push(Op::Put(big[2], vs(16_777_081 + (seed % 100) as u32, 903)));
        ops.push(Op::Get(big[2]));
        ops.push(Op::Get(big[1]));
        ops.push(Op::Put(big[2], vs(40, 904)));
        ops.push(Op::Put(big[0], vs(16_777_216 - 3, 905)));
        ops.push(Op::Get(big[0]));
        ops.push(Op::Get(big[2]));
    }
    ops.push(Op::SyncData);
    // random life of the late population
    let pool: Vec<usize> = late.iter().chain(early.iter()).chain(long.iter().take(12)).copied().collect();
    for _ in 0..500 {
        let k = *rng.pick(&pool);
        match rng.below(10) {
            0..=3 => ops.push(Op::Put(k, vs(*rng.pick(&[0u32, 5, 14, 15, 22, 23, 100, 300, 1100, 1400, 5000]), rng.next() as u32))),
            4 | 5 => ops.push(Op::Del(k)),
            6 | 7 => ops.push(Op::Get(k)),
            8 => ops.push(Op::Has(k)),
            _ => ops.push(Op::BulkGet((0..rng.range(1, 9)).map(|_| *rng.pick(&pool)).collect())),
        }
    }
    ops.push(Op::Iter((seed % 7) as usize, usize::MAX));
    ops.push(Op::Stats);
    ops.push(Op::Flush);
    ops.push(Op::Reopen(Cfg { buckets: Buckets::Size(1024), key: Buf::Auto, val: Buf::Auto, htx: Buf::Auto }));
    for _ in 0..150 {
        let k = *rng.pick(&pool);
        match rng.below(6) {
            0 | 1 => ops.push(Op::Put(k, vs(*rng.pick(&[0u32, 14, 15, 23, 300, 1100]), rng.next() as u32))),
            2 => ops.push(Op::Del(k)),
            _ => ops.push(Op::Get(k)),
        }
    }
    ops.push(Op::Iter(((seed + 3) % 7) as usize, usize::MAX));
    ops.push(Op::SyncAll);
    let n = [8u64, 64, 1, 16][(seed % 4) as usize];
    History {
        kt: K::NAME.into(),
        cfg: Cfg { buckets: Buckets::Size(n), key: Buf::PerMille(1000), val: Buf::Auto, htx: Buf::PerMille(1000) },
        keys,
        ops,
        origin: format!("big regime A (files beyond 16 MiB, long keys, 2/16 MiB values) seed={seed} table={n}"),
    }
}

/// variant B: big table; the value file is beyond 16 MiB first, then tens of thousands of short records fill the key
/// file across several 128 KiB buffer chunks, so that 3- and 4-byte offset fields straddle chunk boundaries
pub fn regime_b<K: Kt>(seed: u64) -> History {
    let mut rng = Rng::new(seed ^ 0xB16B);
    let mut seen = std::collections::HashSet::new();
    let mut keys: Vec<Vec<u8>> = Vec::new();
    let mut ops: Vec<Op> = Vec::new();
    let fill = distinct_keys::<K>(&mut rng, &vec![12; 17], &mut seen, &mut keys);
    for (j, &k) in fill.iter().enumerate() {
        ops.push(Op::Put(k, vs(1 << 20, 100 + j as u32)));
    }
    // (enough records for the key file to cross eight or more chunk boundaries: whether an offset field straddles one
    // depends on where the records happen to start)
    let lens: Vec<usize> = (0..56_000).map(|_| rng.range(3, 14) as usize).collect();
    let small = distinct_keys::<K>(&mut rng, &lens, &mut seen, &mut keys);
    for (j, &k) in small.iter().enumerate() {
        ops.push(Op::Put(k, vs((j % 9) as u32, j as u32)));
    }
    for &k in small.iter() {
        ops.push(if rng.chance(1, 8) { Op::Has(k) } else { Op::Get(k) });
    }
    ops.push(Op::Flush);
    ops.push(Op::Iter((seed % 7) as usize, usize::MAX));
    for &k in small.iter().step_by(7) {
        ops.push(Op::Del(k));
    }
    for &k in small.iter().step_by(5) {
        ops.push(Op::Put(k, vs(3, 7)));
    }
    ops.push(Op::Stats);
    ops.push(Op::SyncData);
    ops.push(Op::Reopen(Cfg { buckets: Buckets::Size(8), key: Buf::Auto, val: Buf::Auto, htx: Buf::Auto }));
    for &k in small.iter().step_by(3) {
        ops.push(Op::Get(k));
    }
    ops.push(Op::Iter(((seed + 1) % 7) as usize, usize::MAX));
    let n = if seed % 2 == 0 { 65536 } else { 16384 };
    History {
        kt: K::NAME.into(),
        cfg: Cfg { buckets: Buckets::Size(n), key: Buf::PerMille(1000), val: Buf::Auto, htx: Buf::PerMille(1000) },
        keys,
        ops,
        origin: format!("big regime B (value file beyond 16 MiB, 56000 short records across key-file chunks) seed={seed} table={n}"),
    }
}

/// variant S ("steered"): like B, but the layout of the key file is computed in advance (pure appends, every key in a
/// bucket of its own, sizing as documented), so that at each of the first chunk boundaries of the key-file buffer
/// (multiples of 128 KiB) a record starts exactly 8 bytes before the boundary with a key of 3, 4 or 5 bytes: its 4-byte
/// value-offset field (value file beyond 16 MiB) then straddles the boundary 3|1, 2|2 or 1|3. Returns the history and
/// the key-file length the computation predicts (compared with the real one afterwards: `steer.*` counters).
pub fn regime_s<K: Kt>(seed: u64) -> (History, u64) {
    use crate::decoder::{bucket_of, vu_len};
    use crate::ops::{key_slot, value_slot};
    let mut rng = Rng::new(seed ^ 0xB165);
    let n: u64 = 65536;
    let mut used_buckets = std::collections::HashSet::new();
    let mut seen = std::collections::HashSet::new();
    let mut keys: Vec<Vec<u8>> = Vec::new();
    let mut ops: Vec<Op> = Vec::new();
    let (mut kp, mut vp) = (192u64, 192u64); // predicted ends of the key and the value file
    let mut fresh_key = |rng: &mut Rng, len: usize, used: &mut std::collections::HashSet<u64>, seen: &mut std::collections::HashSet<Vec<u8>>| -> Vec<u8> {
        loop {
            let k = K::make_key(rng, len);
            if k.len() == len && !used.contains(&bucket_of(&k, n)) && seen.insert(k.clone()) {
                used.insert(bucket_of(&k, n));
                return k;
            }
        }
    };
    let mut put = |keys: &mut Vec<Vec<u8>>, ops: &mut Vec<Op>, k: Vec<u8>, vlen: u32, kp: &mut u64, vp: &mut u64| -> usize {
        let wv = vu_len(*vp) as u64;
        *kp += key_slot(k.len() as u64, wv, 1);
        *vp += value_slot(vlen as u64);
        keys.push(k);
        ops.push(Op::Put(keys.len() - 1, vs(vlen, keys.len() as u32)));
        keys.len() - 1
    };
    // first boundary: value offsets between 128 KiB and 2 MiB (3-byte field, split 2|1); then the value file is pushed
    // beyond 16 MiB and the following boundaries get 4-byte fields
    for _ in 0..2 {
        let k = fresh_key(&mut rng, 12, &mut used_buckets, &mut seen);
        put(&mut keys, &mut ops, k, 100_000, &mut kp, &mut vp);
    }
    let mut straddlers: Vec<usize> = Vec::new();
    let boundaries = 4 + (seed % 2);
    for b in 1..=boundaries {
        if b == 2 {
            for _ in 0..17 {
                let k = fresh_key(&mut rng, 12, &mut used_buckets, &mut seen);
                put(&mut keys, &mut ops, k, 1 << 20, &mut kp, &mut vp);
            }
        }
        let target = b * 131072 - 8;
        while kp < target {
            let gap = target - kp;
            // 16-byte slots (keys of 3..9 bytes), one 24-byte slot (10..17 bytes) when the gap is 8 mod 16
            let len = if gap % 16 == 8 && gap >= 24 { rng.range(10, 17) } else { rng.range(3, 9) } as usize;
            let k = fresh_key(&mut rng, len, &mut used_buckets, &mut seen);
            put(&mut keys, &mut ops, k, (kp % 7) as u32, &mut kp, &mut vp);
        }
        if kp == target {
            let len = [4usize, 3, 5, 4][(b as usize + seed as usize) % 4];
            let k = fresh_key(&mut rng, len, &mut used_buckets, &mut seen);
            straddlers.push(put(&mut keys, &mut ops, k, 5, &mut kp, &mut vp));
        }
    }
    for _ in 0..40 {
        let len = rng.range(3, 9) as usize;
        let k = fresh_key(&mut rng, len, &mut used_buckets, &mut seen);
        put(&mut keys, &mut ops, k, 3, &mut kp, &mut vp);
    }
    for &k in straddlers.iter() {
        ops.push(Op::Get(k));
        ops.push(Op::Has(k));
    }
    ops.push(Op::Flush);
    ops.push(Op::Iter((seed % 7) as usize, usize::MAX));
    ops.push(Op::Reopen(Cfg { buckets: Buckets::Size(8), key: Buf::Auto, val: Buf::Auto, htx: Buf::Auto }));
    for &k in straddlers.iter() {
        ops.push(Op::Get(k));
    }
    ops.push(Op::Iter(((seed + 2) % 7) as usize, usize::MAX));
    ops.push(Op::BulkGet(straddlers.clone()));
    // overwrite the straddlers (their value moves; the record is rewritten in place or moves) and read them again
    for &k in straddlers.iter() {
        ops.push(Op::Put(k, vs(40, 9)));
        ops.push(Op::Get(k));
    }
    ops.push(Op::Stats);
    ops.push(Op::SyncData);
    let h = History {
        kt: K::NAME.into(),
        cfg: Cfg { buckets: Buckets::Size(n), key: Buf::PerMille(1000), val: Buf::Auto, htx: Buf::PerMille(1000) },
        keys,
        ops,
        origin: format!("big regime S (value file beyond 16 MiB, records steered so that 4-byte offset fields straddle {} chunk boundaries of the key file) seed={seed}", straddlers.len()),
    };
    (h, kp)
}

/// variant X ("extended"): the widths of stored offsets beyond what any affordable history reaches. Between phases
/// every handle is dropped and the value and/or key file is extended by a hole to just below 2^28, 2^31, 2^32, 2^35,
/// 2^38, 2^42, 2^45, 2^49, 2^52, 2^56, 2^59 bytes (where the estimated / the stored width of an offset grows by a byte,
/// and where 32-bit arithmetic on offsets or on offsets/8 wraps); each phase then appends records across that
/// boundary, overwrites old entries (their value moves behind it, their key record gets a wider offset), deletes,
/// reads everything back, reopens. The hole stands in for the history that would have grown the file; nothing in
/// these histories walks the slots of a file. `which`: 0 value file, 1 key file, 2 both.
pub fn regime_x<K: Kt>(seed: u64, which: usize) -> History {
    let mut rng = Rng::new(seed ^ 0xB167);
    let mut seen = std::collections::HashSet::new();
    let mut keys: Vec<Vec<u8>> = Vec::new();
    let mut ops: Vec<Op> = Vec::new();
    let cfg = Cfg { buckets: Buckets::Size([8u64, 1, 64][(seed % 3) as usize]), key: Buf::Size(1 << 20), val: Buf::Size(1 << 20), htx: Buf::Size(1 << 20) };
    let edge = [10usize, 11, 10, 18, 19, 11, 26, 27, 3, 4, 12, 9, 17, 25, 5, 13];
    let early = distinct_keys::<K>(&mut rng, &(0..48).map(|j| edge[j % 16]).collect::<Vec<_>>(), &mut seen, &mut keys);
    for (j, &k) in early.iter().enumerate() {
        ops.push(Op::Put(k, vs([14u32, 15, 100, 0, 23][j % 5], j as u32)));
    }
    let mut all: Vec<usize> = early.clone();
    let mut e_next = 0usize;
    for (ph, &bits) in [28u32, 31, 32, 35, 38, 42, 45, 49, 52, 56, 59].iter().enumerate() {
        let b = 1u64 << bits;
        // modes 0-2: the appends cross the boundary; 3-5: the first record appended starts exactly on it
        let (kl, vl) = match which {
            0 => (0, b - 256),
            1 => (b - 256, 0),
            2 => (b - 128, b - 512),
            3 => (0, b),
            4 => (b, 0),
            _ => (b, b),
        };
        ops.push(Op::Hole(cfg, kl, vl));
        let late = distinct_keys::<K>(&mut rng, &(0..14).map(|j| edge[(j + ph) % 16]).collect::<Vec<_>>(), &mut seen, &mut keys);
        for (j, &k) in late.iter().enumerate() {
            ops.push(Op::Put(k, vs([100u32, 14, 15, 300][j % 4], (ph * 100 + j) as u32)));
        }
        // old entries get longer values: the value moves behind the boundary, the key record gets the wider offset
        for _ in 0..6 {
            let k = early[e_next % early.len()];
            e_next += 1;
            ops.push(Op::Put(k, vs(120 + 8 * ph as u32, (ph * 1000) as u32 + k as u32)));
            ops.push(Op::Get(k));
        }
        all.extend(late.iter().copied());
        for j in 0..4 {
            let k = all[(rng.next() as usize) % all.len()];
            if j % 2 == 0 {
                ops.push(Op::Del(k));
            } else {
                ops.push(Op::Put(k, vs(22, 7)));
            }
        }
        for &k in late.iter() {
            ops.push(Op::Get(k));
        }
        ops.push(Op::Has(all[(rng.next() as usize) % all.len()]));
        ops.push(Op::BulkGet(late.iter().copied().take(5).collect()));
        if ph % 3 == 2 {
            ops.push(Op::Iter((seed as usize + ph) % 7, usize::MAX));
            ops.push(Op::Reopen(cfg));
        }
        ops.push(Op::Len);
    }
    ops.push(Op::Reopen(cfg));
    for &k in all.iter().step_by(3) {
        ops.push(Op::Get(k));
    }
    ops.push(Op::Iter((seed % 7) as usize, usize::MAX));
    History {
        kt: K::NAME.into(),
        cfg,
        keys,
        ops,
        origin: format!("big regime X (files extended by holes to 2^28 ... 2^59 bytes: {}) seed={seed}", ["value file, crossing", "key file, crossing", "both files, crossing", "value file, exactly on the boundary", "key file, exactly on the boundary", "both files, exactly on the boundary"][which % 6]),
    }
}

/// variant C: a log value that grows by one slot step more than a thousand times (every earlier slot ends on the shared
/// first-fit list, in increasing size order), then requests that only the far end of that list can satisfy
pub fn regime_c<K: Kt>(seed: u64) -> History {
    let mut rng = Rng::new(seed ^ 0xB16C);
    let mut seen = std::collections::HashSet::new();
    let mut keys: Vec<Vec<u8>> = Vec::new();
    let mut ops: Vec<Op> = Vec::new();
    let ks = distinct_keys::<K>(&mut rng, &[8, 9, 10, 11, 12, 13], &mut seen, &mut keys);
    let steps = 1100 + (seed % 200) as u32;
    // two logs grow in turn: the slot one of them leaves is too small for the other's next size, so nothing is reused
    for j in 0..steps {
        ops.push(Op::Put(ks[0], vs(1100 + 128 * 2 * j, j)));
        ops.push(Op::Put(ks[1], vs(1100 + 128 * (2 * j + 1), j)));
        if j % 97 == 0 {
            ops.push(Op::Get(ks[0]));
            ops.push(Op::Put(ks[2], vs(14, j)));
        }
    }
    ops.push(Op::Stats);
    ops.push(Op::Flush);
    // now requests served by the far end of the free list
    let top = 1100 + 128 * 2 * (steps - 3);
    ops.push(Op::Put(ks[3], vs(top, 1)));
    ops.push(Op::Put(ks[4], vs(top - 128 * 40, 2)));
    ops.push(Op::Put(ks[5], vs(1100 + 128 * 1030, 3)));
    ops.push(Op::Put(ks[2], vs(1100 + 128 * 1026, 4)));
    ops.push(Op::Stats);
    ops.push(Op::SyncData);
    for &k in ks.iter() {
        ops.push(Op::Get(k));
    }
    ops.push(Op::Del(ks[0]));
    ops.push(Op::Del(ks[1]));
    ops.push(Op::Put(ks[0], vs(2000, 9)));
    ops.push(Op::Flush);
    History {
        kt: K::NAME.into(),
        cfg: Cfg { buckets: Buckets::Size(8), key: Buf::PerMille(1000), val: Buf::Auto, htx: Buf::PerMille(1000) },
        keys,
        ops,
        origin: format!("big regime C (free list of {} large slots in increasing order) seed={seed}", 2 * steps),
    }
}

/// thorough only: more than 4 GiB of values, then a small population beyond that offset
pub fn regime_huge<K: Kt>(seed: u64) -> History {
    let mut rng = Rng::new(seed ^ 0xB16D);
    let mut seen = std::collections::HashSet::new();
    let mut keys: Vec<Vec<u8>> = Vec::new();
    let mut ops: Vec<Op> = Vec::new();
    let early = distinct_keys::<K>(&mut rng, &[10, 11, 3, 18], &mut seen, &mut keys);
    for (j, &k) in early.iter().enumerate() {
        ops.push(Op::Put(k, vs(14 + j as u32, j as u32)));
    }
    let fill = distinct_keys::<K>(&mut rng, &vec![12; 260], &mut seen, &mut keys);
    for &k in fill.iter() {
        ops.push(Op::Put(k, vs((1 << 24) - 4096, 1)));
    }
    let late = distinct_keys::<K>(&mut rng, &[3, 4, 10, 11, 12, 18, 19, 26, 5, 9, 10, 11], &mut seen, &mut keys);
    for (j, &k) in late.iter().enumerate() {
        ops.push(Op::Put(k, vs([0u32, 14, 15, 300, 1100][j % 5], 50 + j as u32)));
    }
    for &k in late.iter().chain(early.iter()) {
        ops.push(Op::Get(k));
    }
    for (j, &k) in early.iter().enumerate() {
        ops.push(Op::Put(k, vs(500 + j as u32, 80 + j as u32)));
    }
    ops.push(Op::Get(fill[0]));
    ops.push(Op::Get(fill[259]));
    ops.push(Op::Del(late[0]));
    ops.push(Op::Del(late[3]));
    ops.push(Op::Put(late[0], vs(23, 99)));
    ops.push(Op::Flush);
    ops.push(Op::Reopen(Cfg { buckets: Buckets::Size(8), key: Buf::Auto, val: Buf::Auto, htx: Buf::Auto }));
    for &k in late.iter().chain(early.iter()) {
        ops.push(Op::Get(k));
    }
    ops.push(Op::Put(late[5], vs(3000, 100)));
    ops.push(Op::Get(late[5]));
    ops.push(Op::Len);
    History {
        kt: K::NAME.into(),
        cfg: Cfg { buckets: Buckets::Size(8), key: Buf::PerMille(1000), val: Buf::Auto, htx: Buf::PerMille(1000) },
        keys,
        ops,
        origin: format!("big regime HUGE (value file beyond 4 GiB) seed={seed}"),
    }
}

pub fn history_for(kt: &str, variant: &str, seed: u64, huge_val: bool) -> History {
    fn a<K: Kt>(seed: u64, hv: bool) -> History {
        regime_a::<K>(seed, hv)
    }
    fn b<K: Kt>(seed: u64, _hv: bool) -> History {
        regime_b::<K>(seed)
    }
    fn c<K: Kt>(seed: u64, _hv: bool) -> History {
        regime_c::<K>(seed)
    }
    fn h<K: Kt>(seed: u64, _hv: bool) -> History {
        regime_huge::<K>(seed)
    }
    fn x<K: Kt>(seed: u64, _hv: bool) -> History {
        regime_x::<K>(seed, (seed % 6) as usize)
    }
    match variant {
        "A" => with_kt!(kt, a(seed, huge_val)),
        "B" => with_kt!(kt, b(seed, huge_val)),
        "C" => with_kt!(kt, c(seed, huge_val)),
        "X" => with_kt!(kt, x(seed, huge_val)),
        _ => with_kt!(kt, h(seed, huge_val)),
    }
}

/// which findings count for the property the stage is run for
fn owners_for(prop: &str) -> Vec<&'static str> {
    match prop {
        "C01" => vec!["C01"],
        "C02" => vec!["C02"],
        "C04" => vec!["C04"],
        "C05" => vec!["C05"],
        "C06" => vec!["C06"],
        // the same wide-regime histories under other table and buffer settings (and a reopen under yet another one)
        "C07" => vec!["C07", "C01", "C02"],
        // relocation and relinking must be invisible: every history here relocates and relinks (required below),
        // and what would make it visible is a wrong answer of the map
        "C08" => vec!["C01", "C02", "C04"],
        // nothing may be overwritten by a neighbour: wrong contents, or records that do not tile
        "C09" => vec!["C01", "C02"],
        // typed keys are faithful: run with the typed key kinds only
        "C10" => vec!["C01", "C02", "C04"],
        "C14" => vec!["C14"],
        "C17" => vec!["C17"],
        _ => vec![],
    }
}

/// Run a history for a property whose monitor sits at the end of something (a reopen, a traversal, a decode, a
/// statistics call). If an update call on the way fails in a manner that belongs to another property (it panics,
/// errs, returns a wrong value), the history cannot go on - but the property of this stage can still be judged at
/// the point reached: the one key whose state is undefined is re-read from the map itself, then the monitor of
/// this property runs (close/reopen/compare; traversals; flush and decode; statistics).
fn run_with_salvage<K: Kt>(a: &Args, h: &History, mon: &Mon, prop: &'static str, expect_key_len: Option<u64>, ctx: &mut Ctx) {
    use crate::session::{run_ops, Session, Stop};
    let dir = a.scratch.join("h_big");
    let _ = std::fs::remove_dir_all(&dir);
    let mut s = match Session::<K>::create(&dir, "m", &h.cfg) {
        Ok(s) => s,
        Err(e) => {
            ctx.inconclusive.push(format!("cannot create the map: {e}"));
            return;
        }
    };
    let r = run_ops(&mut s, h, 0, mon, ctx);
    ctx.evaluations += 1;
    ctx.count("calls_executed", r.calls as u64);
    ctx.drain_notes();
    let mut stop = r.stop;
    if let Some(Stop::Foreign(f)) = &stop {
        let touched: Vec<usize> = match h.ops.get(f.at) {
            Some(Op::Put(k, _)) | Some(Op::Del(k)) => vec![*k],
            _ => vec![],
        };
        let at = f.at;
        if !touched.is_empty() && s.map.is_some() && touched.iter().all(|&k| s.resync_key(&h.keys[k])) {
            ctx.count("salvaged_after_foreign_failure", 1);
            let verdict: Result<(), crate::session::Finding> = (|| {
                match prop {
                    "C02" => {
                        s.close();
                        if let Err(e) = s.open(&h.cfg) {
                            return Err(crate::session::finding(&["C02"], "reopen", at, format!("after a clean close the map does not open again: {e}")));
                        }
                        s.full_compare(at, &h.keys, &["C02"], "after close and reopen (history cut short by a failing update call)", ctx)
                    }
                    "C04" => {
                        for fl in [0usize, 2, 4] {
                            s.iterate(at, fl, usize::MAX, false, ctx)?;
                        }
                        Ok(())
                    }
                    "C17" => s.stats_calls(at, None, ctx),
                    _ => {
                        s.close();
                        s.decode_checkpoint(at, mon, ctx, "close")
                    }
                }
            })();
            if let Err(f2) = verdict {
                stop = Some(ctx.classify(f2));
            }
        }
    }
    s.close();
    if let Ok(md) = std::fs::metadata(dir.join("m.val")) {
        ctx.max("max_val_file", md.len());
    }
    if let Ok(md) = std::fs::metadata(dir.join("m.key")) {
        ctx.max("max_key_file", md.len());
        // the steered layout: did the key file come out as computed? (if not, the run is still a valid history, but the
        // records did not sit where they were meant to; the driver's coverage floor asks for at least one hit)
        if let Some(e) = expect_key_len {
            if stop.is_none() {
                ctx.count(if md.len() == e { "steer.key_file_length_as_predicted" } else { "steer.key_file_length_differs" }, 1);
            }
        }
    }
    let d = crate::util::digest64(7, h.origin.as_bytes());
    ctx.digests.insert(d);
    ctx.nontrivial.insert(d);
    let _ = std::fs::remove_dir_all(&dir);
    if let Some(st) = stop {
        ctx.record_stop(st, Some(h));
    }
}

pub fn run(a: &Args) -> Ctx {
    let prop: &'static str = match a.get("as").unwrap_or("C01") {
        "C01" => "C01",
        "C02" => "C02",
        "C04" => "C04",
        "C05" => "C05",
        "C06" => "C06",
        "C07" => "C07",
        "C08" => "C08",
        "C09" => "C09",
        "C10" => "C10",
        "C14" => "C14",
        "C17" => "C17",
        _ => "C01",
    };
    let own = owners_for(prop);
    let mut ctx = Ctx::new(prop, &own, &a.replay_dir, &a.shard_name());
    // a check whose property is about reopening / traversal / structure / statistics / bulk calls does not issue the
    // reads that belong to other properties: a wrong answer there would end the history as somebody else's finding
    // before the monitor of this property has had its turn (reads_of_others)
    let all_reads = matches!(prop, "C01" | "C07" | "C08" | "C09" | "C10");
    // shard -> (variant, key type)
    let typed_only = prop == "C10";
    let kts: &[&str] = if typed_only { &["u64", "string", "vu64", "i64"] } else { &["bytes", "string", "u64", "vu64", "bytes", "i64"] };
    // X (files extended by holes) only where no monitor walks the slots of a file
    let with_x = matches!(a.get("as").unwrap_or("C01"), "C01" | "C02" | "C04" | "C07" | "C08" | "C10");
    let variants: &[&str] = if a.get_u64("huge", 0) == 1 {
        &["H"]
    } else if with_x {
        &["A", "S", "C", "B", "X", "X", "X", "A"]
    } else {
        &["A", "S", "C", "B"]
    };
    let variant = variants[a.shard % variants.len()];
    // (the 4 GiB image is not decoded: the decoder works on an in-memory copy)
    let huge = a.get_u64("huge", 0) == 1;
    let mon = Mon {
        get_after_put: all_reads,
        decode_at_sync: !huge && variant != "X",
        iterate_at_sync: matches!(prop, "C04" | "C08" | "C10"),
        stats_at_sync: prop == "C17",
        full_compare_at_reopen: true,
        final_sweep: all_reads,
        decode_at_close: !huge && variant != "X",
        ..Default::default()
    };
    let mut kt = kts[(a.shard + a.shard / variants.len() + a.seed as usize) % kts.len()];
    if variant == "A" && a.shard % 8 == 0 {
        // the first shard always takes a byte-string key type: only those have the long keys
        kt = if typed_only || a.seed % 2 == 1 { "string" } else { "bytes" };
    }
    let huge_val = a.thorough || a.shard % 8 == 0;
    let mut expect_key_len: Option<u64> = None;
    if variant == "S" {
        // (needs keys of chosen lengths: byte-string key types only)
        kt = if (a.shard / variants.len() + a.seed as usize) % 2 == 0 { "bytes" } else { "string" };
    }
    let mut h = if variant == "S" {
        let (h, kl) = if kt == "bytes" { regime_s::<abyssiniandb::DbBytes>(a.shard_seed()) } else { regime_s::<abyssiniandb::DbString>(a.shard_seed()) };
        expect_key_len = Some(kl);
        h
    } else {
        history_for(kt, variant, a.shard_seed(), huge_val)
    };
    if prop == "C07" && variant != "X" {
        // (X keeps its fixed 1-MiB buffers: a buffer sized in proportion to a 2^59-byte file is not a setting anyone can use)
        let mut r = Rng::new(a.shard_seed() ^ 0xC07);
        let keep = h.cfg.buckets;
        h.cfg = Cfg::random(&mut r, false);
        if variant != "A" || r.chance(1, 2) {
            // (variant B needs its big table to stay cheap; chains of variant A are short enough for any table)
            h.cfg.buckets = keep;
        }
        for o in h.ops.iter_mut() {
            if let Op::Reopen(c) = o {
                *c = Cfg::random(&mut r, false);
            }
        }
        h.origin = format!("{} under {}", h.origin, h.cfg.text());
    }
    if !all_reads {
        h.ops.retain(|o| match o {
            Op::Get(_) | Op::Has(_) | Op::Len | Op::IsEmpty => false,
            Op::BulkGet(_) => prop == "C14",
            Op::Iter(..) => prop == "C04",
            Op::Stats => prop == "C17",
            _ => true,
        });
        if prop == "C14" {
            // batches through every bulk call, sorted and unsorted
            let n = h.keys.len();
            let mut r = Rng::new(a.shard_seed() ^ 0xC14);
            let mut extra = Vec::new();
            for _ in 0..12 {
                let ks: Vec<usize> = (0..r.range(1, 30)).map(|_| r.below(n as u64) as usize).collect();
                extra.push(Op::BulkGet(ks));
            }
            let at = h.ops.len() - 1;
            for e in extra {
                h.ops.insert(at, e);
            }
        }
    }
    ctx.count(&format!("bigreg.variant.{variant}"), 1);
    ctx.count(&format!("bigreg.kt.{kt}"), 1);
    ctx.max("bigreg.max_key_len", h.keys.iter().map(|k| k.len()).max().unwrap_or(0) as u64);
    let mut max_val = 0u64;
    for o in h.ops.iter() {
        if let Op::Put(_, v) = o {
            max_val = max_val.max(v.len as u64);
        }
    }
    ctx.max("bigreg.max_val_len", max_val);
    if (all_reads || prop == "C14") && expect_key_len.is_none() {
        super::run_and_record(a, &h, &mon, &mut ctx, "big");
    } else {
        fn go<K: Kt>(a: &Args, h: &History, mon: &Mon, prop: &'static str, expect_key_len: Option<u64>, ctx: &mut Ctx) {
            run_with_salvage::<K>(a, h, mon, prop, expect_key_len, ctx)
        }
        with_kt!(kt, go(a, &h, &mon, prop, expect_key_len, &mut ctx));
    }
    let _ = gen_bytes(0, 0, 0);
    ctx
}
