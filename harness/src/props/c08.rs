//! C08: breadth-first exploration of the on-disk state graph of maps whose keys all collide in one bucket.
use super::*;
use crate::decoder::{bucket_of, Decoded};
use crate::ops::value_slot;
use crate::session::Model;
use abyssiniandb::DbBytes;
use std::collections::{HashSet, VecDeque};

struct State {
    img: Image,
    model: Model,
    depth: u32,
}

/// a key of exactly `len` bytes (len >= 6) that the independent hash puts into bucket b of n
fn key_in_bucket(n: u64, b: u64, len: usize, tag: u8, start: &mut u64) -> Vec<u8> {
    loop {
        *start += 1;
        let mut k = vec![tag];
        k.extend_from_slice(format!("{:x}", *start).as_bytes());
        while k.len() < len {
            k.push(b'.');
        }
        k.truncate(len);
        if bucket_of(&k, n) == b {
            return k;
        }
    }
}

fn put(s: &mut Session<DbBytes>, k: &[u8], v: &[u8]) -> Result<(), String> {
    use abyssiniandb::DbXxx;
    s.map.as_mut().unwrap().put(k, v).map_err(|e| e.to_string())?;
    s.model.insert(k.to_vec(), v.to_vec());
    Ok(())
}
fn del(s: &mut Session<DbBytes>, k: &[u8]) -> Result<(), String> {
    use abyssiniandb::DbXxx;
    s.map.as_mut().unwrap().delete(k).map_err(|e| e.to_string())?;
    s.model.remove(k);
    Ok(())
}
fn flush(s: &mut Session<DbBytes>) -> Result<(), String> {
    use abyssiniandb::DbXxxBase;
    s.map.as_mut().unwrap().flush().map_err(|e| e.to_string())
}
fn file_len(s: &Session<DbBytes>, ext: &str) -> u64 {
    std::fs::metadata(s.dir.join(format!("m.{ext}"))).map(|m| m.len()).unwrap_or(0)
}

/// largest value length whose slot is exactly `slot`
fn max_val_len_for_slot(slot: u64) -> Option<u64> {
    let mut len = slot.saturating_sub(6);
    while len > 0 && value_slot(len) > slot {
        len -= 1;
    }
    if value_slot(len) == slot {
        Some(len)
    } else {
        None
    }
}

/// slot size for the next filler so that the rest stays fillable (0 or >= 16)
fn next_fill(r: u64, avoid: u64) -> u64 {
    let ok = |c: u64| c != avoid && c <= r && (r - c == 0 || (r - c >= 16 && r - c != avoid));
    if r >= 1152 + 16 {
        let mut c = (r.min(50_048) / 128) * 128;
        while c > 1152 && !ok(c) {
            c -= 128;
        }
        return c;
    }
    for &c in crate::decoder::CLASSES.iter().rev() {
        if c != 1024 && ok(c as u64) {
            return c as u64;
        }
    }
    0
}

/// build a start image through the API: the end of the value file and/or of the key file is brought to
/// exactly 16 bytes below a width boundary of the offset encodings, with free slots of several classes below it
fn seed_image(a: &Args, n: u64, b: u64, val_boundary: u64, key_boundary: u64, ctx: &mut Ctx) -> Result<(Image, Model), String> {
    let dir = a.scratch.join("c08seed");
    let _ = std::fs::remove_dir_all(&dir);
    let cfg = Cfg { buckets: Buckets::Size(n), key: Buf::PerMille(1000), val: Buf::Auto, htx: Buf::PerMille(1000) };
    let mut s = Session::<DbBytes>::create(&dir, "m", &cfg)?;
    let mut ctr = 1000u64;
    if val_boundary != 0 || key_boundary != 0 {
        // temporaries: deleted at the end, they leave low free slots of several classes in both files
        // (one free slot per small class only, so that allocations reach the end of the file after a few calls)
        let temps: Vec<(Vec<u8>, usize)> = [14usize, 22, 30, 46, 62]
            .iter()
            .enumerate()
            .map(|(i, &vl)| (key_in_bucket(n, b, [8usize, 12, 20, 28, 44][i], b'T', &mut ctr), vl))
            .collect();
        for (k, vl) in temps.iter() {
            put(&mut s, k, &crate::util::gen_bytes(*vl, 1, 0))?;
        }
        // placeholders whose 16-byte value slots will take the values of the key fillers (so that filling
        // the key file does not move the end of the value file any more)
        // (56-byte keys: their freed 64-byte key slots serve neither the 16/24-byte records of the alphabet nor the fillers)
        let zs: Vec<Vec<u8>> = (0..40).map(|_| key_in_bucket(n, b, 56, b'Z', &mut ctr)).collect();
        if key_boundary != 0 {
            for k in zs.iter() {
                put(&mut s, k, &crate::util::gen_bytes(14, 3, 0))?;
            }
        }
        if val_boundary != 0 {
            let target = val_boundary - 16;
            for _step in 0..60 {
                flush(&mut s)?;
                let e0 = file_len(&s, "val");
                if e0 >= target {
                    break;
                }
                let c = next_fill(target - e0, 0);
                let Some(len) = (if c == 0 { None } else { max_val_len_for_slot(c) }) else { break };
                let fk = key_in_bucket(n, b, 7, b'V', &mut ctr);
                put(&mut s, &fk, &crate::util::gen_bytes(len as usize, 2, 0))?;
            }
            flush(&mut s)?;
            if file_len(&s, "val") != target {
                ctx.count("seed.imprecise_val", 1);
            }
        }
        if key_boundary != 0 {
            for k in zs.iter() {
                del(&mut s, k)?;
            }
            let target = key_boundary - 16;
            for _step in 0..38 {
                flush(&mut s)?;
                let e0 = file_len(&s, "key");
                if e0 >= target {
                    break;
                }
                // (free 64-byte key slots exist: the placeholders' - a filler of that class would not extend the file)
                let c = next_fill(target - e0, 64);
                if c == 0 {
                    break;
                }
                // longest key whose record needs a slot of exactly c (offset fields at most 3 bytes each here)
                let mut len = c.saturating_sub(12);
                while crate::ops::key_slot(len + 1, 3, 3) <= c {
                    len += 1;
                }
                if crate::ops::key_slot(len, 3, 3) != c || len < 6 {
                    // a small class that cannot be hit with both offsets 3 bytes wide: take the next smaller fit
                    len = c.saturating_sub(8).max(6);
                }
                let fk = key_in_bucket(n, b, len as usize, b'G', &mut ctr);
                put(&mut s, &fk, &crate::util::gen_bytes(14, 4, 0))?;
            }
            flush(&mut s)?;
            if file_len(&s, "key") != target {
                ctx.count("seed.imprecise_key", 1);
            }
            if val_boundary != 0 && file_len(&s, "val") != val_boundary - 16 {
                ctx.count("seed.imprecise_val", 1);
            }
        }
        for (k, _) in temps.iter() {
            del(&mut s, k)?;
        }
    }
    let model = s.model.clone();
    s.close();
    let img = Image::read(&dir, "m").map_err(|e| e.to_string())?;
    let _ = std::fs::remove_dir_all(&dir);
    ctx.max("seed.val_file_len", img.val.len() as u64);
    ctx.max("seed.key_file_len", img.key.len() as u64);
    Ok((img, model))
}

fn chain_position(dec: &Decoded, key: &[u8]) -> &'static str {
    match dec.entries.iter().find(|e| e.key == key) {
        None => "absent",
        Some(e) => {
            if e.chain_len == 1 {
                "only"
            } else if e.chain_pos == 0 {
                "first"
            } else if e.chain_pos + 1 == e.chain_len {
                "last"
            } else {
                "middle"
            }
        }
    }
}

pub fn run(a: &Args) -> Ctx {
    // `--as C09`: the same exploration judged for C09 ("the encoded record never exceeds its slot, writing one
    // entry never alters the bytes of another"): only overflow-shaped findings count then
    // likewise `--as C05` (structure-shaped findings of the decoder count) and `--as C06` (storage-shaped ones)
    let mut ctx = match a.get("as") {
        Some("C09") => Ctx::new("C09", &["C09"], &a.replay_dir, &a.shard_name()),
        Some("C05") => Ctx::new("C05", &["C05"], &a.replay_dir, &a.shard_name()),
        Some("C06") => Ctx::new("C06", &["C06"], &a.replay_dir, &a.shard_name()),
        _ => Ctx::new("C08", &["C08"], &a.replay_dir, &a.shard_name()),
    };
    let mut cap = a.get_u64("states", 2500) as usize;
    // shard -> (table, value-file boundary, key-file boundary). 16 KiB: width boundary of the slot-size
    // estimate (enc(offset)); 128 KiB: width boundary of the stored field (enc(offset/8)); 2 MiB: next estimate boundary
    let variants: Vec<(u64, u64, u64)> = {
        let mut v = Vec::new();
        let bs: &[u64] = &[0, 16384, 131072];
        for &n in &[1u64, 8] {
            for &vb in bs {
                for &kb in bs {
                    v.push((n, vb, kb));
                }
            }
        }
        if a.thorough {
            v.push((1, 2 * 1024 * 1024, 0));
            v.push((8, 16384, 2 * 1024 * 1024));
            v.push((1, 2 * 1024 * 1024, 131072));
        }
        v
    };
    let (n, val_boundary, key_boundary) = variants[a.shard % variants.len()];
    let salt = (a.shard / variants.len()) as u64 + a.seed * 31;
    let b = salt % n;
    // alphabet: key lengths exactly on slot edges for the offset widths in play. 10 and 18 fill a 16/24-byte
    // slot exactly while both offset fields take 2 bytes, 9 while one of them takes 3, 11/19 only as chain tail:
    // several exactly-full records in one chain are what makes a relocation cascade towards the bucket head
    // the fourth alphabet: records of 897..1017 estimated bytes live in the 1024-byte slot, whose size field is one
    // byte wider than the estimate assumes (1000, 1005, 900), next to exactly-full short ones
    // the fifth: keys of 1143/1144 bytes, whose records (1151 bytes with two-byte offsets; 1144 for a chain tail) leave one byte of slack in their
    // 1152-byte slot on the shared first-fit list: one byte more in an offset field and they move to a 1280-byte slot
    let alphabets: [&[usize]; 5] = [&[10, 10, 10, 11, 9], &[10, 18, 10, 18, 11], &[9, 10, 19, 18, 10], &[1000, 1005, 10, 900, 11], &[1143, 1143, 10, 1144, 11]];
    // shards 0..17 take the first alphabet on all 18 start images, 18..35 the second, and so on
    let lens_all = alphabets[((a.shard / variants.len()) % 5) as usize];
    let nk = 4 + ((salt / 3) % 2) as usize;
    let mut ctr = 7 * salt;
    let mut keys: Vec<Vec<u8>> = (0..nk).map(|i| key_in_bucket(n, b, lens_all[i], b'k', &mut ctr)).collect();
    // the empty key hashes to bucket 0: where that is the bucket under exploration, every second shard has it in the chain
    if bucket_of(&[], n) == b && salt % 2 == 0 {
        let last = keys.len() - 1;
        keys[last] = Vec::new();
    }
    // the last set keeps the shared first-fit list of slots >= 1024 bytes busy with three different sizes
    // (slots 1152, 1408, 1536): a fitting free slot behind a non-fitting one, unlinking from the middle
    let val_sets: [&[u32]; 4] = [&[14, 15, 300, 1100], &[0, 22, 23, 5000], &[14, 126, 127, 2000], &[1100, 1400, 1500, 14]];
    let vals: Vec<ValSpec> = val_sets[((a.shard / variants.len() + a.shard % variants.len() + a.seed as usize) % 4) as usize].iter().enumerate().map(|(i, &l)| ValSpec { len: l, seed: i as u32 + 1, kind: 0 }).collect();
    let mut transitions: Vec<Op> = Vec::new();
    for k in 0..keys.len() {
        for v in vals.iter() {
            transitions.push(Op::Put(k, *v));
        }
        transitions.push(Op::Del(k));
    }
    let (img0, model0) = match seed_image(a, n, b, val_boundary, key_boundary, &mut ctx) {
        Ok(x) => x,
        Err(e) => {
            ctx.inconclusive.push(format!("cannot build the start image: {e}"));
            return ctx;
        }
    };
    ctx.count(&format!("start.table{n}.val{val_boundary}.key{key_boundary}"), 1);
    let mut sample = J::obj();
    sample.set("table", J::u(n));
    sample.set("start", J::s(format!("value file ends just below {val_boundary}, key file ends just below {key_boundary} (0 = empty file)")));
    sample.set("keys", J::Arr(keys.iter().map(|k| J::s(crate::util::show_bytes(k))).collect()));
    sample.set("value_lengths", J::Arr(vals.iter().map(|v| J::u(v.len as u64)).collect()));
    sample.set("transitions_per_state", J::u(transitions.len() as u64));
    ctx.samples.push(sample);

    // big start images cost more per transition: fewer states
    cap = (cap as u64 * 60_000 / (img0.total_len().max(60_000))).max(400) as usize;
    // the frontier holds whole images: keep one shard below ~600 MB (16 shards run at once)
    cap = cap.min((600_000_000 / img0.total_len().max(1)) as usize).max(100);
    let mut all_keys = keys.clone();
    all_keys.extend(model0.keys().cloned());
    let dir = a.scratch.join("c08");
    let mut seen: HashSet<u64> = HashSet::new();
    let mut queue: VecDeque<State> = VecDeque::new();
    seen.insert(img0.digest());
    let cfg = Cfg { buckets: Buckets::Size(n), key: Buf::PerMille(1000), val: Buf::Auto, htx: Buf::PerMille(1000) };
    let env = Env { n, val_boundary, key_boundary, dir: dir.clone(), cfg, keys: keys.clone(), all_keys };
    let start = State { img: img0.clone(), model: model0.clone(), depth: 0 };
    queue.push_back(State { img: img0, model: model0, depth: 0 });
    let mut states = 0usize;
    let mut dropped = false;
    let mut stopped = false;
    'bfs: while let Some(st) = queue.pop_front() {
        states += 1;
        ctx.count("states", 1);
        ctx.max("max_depth", st.depth as u64);
        let pre_dec = decoder::decode(&st.img, Some(DbBytes::SIG));
        for op in transitions.iter() {
            match transition(&env, &st, &pre_dec, op, &mut ctx) {
                Err(()) => {
                    stopped = true;
                    break 'bfs;
                }
                Ok((post, model, _dec)) => {
                    let dg = post.digest();
                    if seen.insert(dg) {
                        if seen.len() <= cap {
                            queue.push_back(State { img: post, model, depth: st.depth + 1 });
                        } else {
                            dropped = true;
                        }
                    } else {
                        ctx.count("dedup_hits", 1);
                    }
                }
            }
        }
        if states >= cap {
            break;
        }
    }
    ctx.count(if !stopped && !dropped && queue.is_empty() { "closure_reached" } else { "state_cap_reached" }, 1);
    // random walks from the start image reach deeper than the breadth-first frontier
    let walks = a.get_u64("walks", 60);
    let walk_len = a.get_u64("walk_len", 14);
    let mut rng = Rng::new(a.shard_seed() ^ 0xC08);
    'walks: for _ in 0..walks {
        if stopped {
            break;
        }
        let mut cur = State { img: start.img.clone(), model: start.model.clone(), depth: 0 };
        for _ in 0..walk_len {
            // inserts are preferred until all keys are present, then overwrites/deletes
            let missing: Vec<&Op> = transitions.iter().filter(|o| matches!(o, Op::Put(k, _) if !cur.model.contains_key(&keys[*k]))).collect();
            let op = if !missing.is_empty() && rng.chance(2, 3) { (*rng.pick(&missing)).clone() } else { rng.pick(&transitions).clone() };
            let pre_dec = decoder::decode(&cur.img, Some(DbBytes::SIG));
            match transition(&env, &cur, &pre_dec, &op, &mut ctx) {
                Err(()) => {
                    break 'walks;
                }
                Ok((post, model, _)) => {
                    ctx.count("walk_steps", 1);
                    ctx.max("max_depth", cur.depth as u64 + 1);
                    seen.insert(post.digest());
                    cur = State { img: post, model, depth: cur.depth + 1 };
                }
            }
        }
        ctx.count("walks", 1);
    }
    let _ = std::fs::remove_dir_all(&dir);
    ctx.evaluations = ctx.counters.get("transitions").copied().unwrap_or(0);
    for d in seen.iter() {
        ctx.digests.insert(*d);
        ctx.nontrivial.insert(*d);
    }
    ctx
}

struct Env {
    n: u64,
    val_boundary: u64,
    key_boundary: u64,
    dir: PathBuf,
    cfg: Cfg,
    keys: Vec<Vec<u8>>,
    all_keys: Vec<Vec<u8>>,
}

/// restore the state image, reopen, apply one call, compare every key, close, decode.
/// Err(()) = a stop was recorded in ctx
fn transition(env: &Env, st: &State, pre_dec: &Decoded, op: &Op, ctx: &mut Ctx) -> Result<(Image, Model, Decoded), ()> {
    let (n, dir, keys) = (env.n, &env.dir, &env.keys);
    let mon = Mon::default();
    let _ = std::fs::remove_dir_all(dir);
    if let Err(e) = st.img.write(dir, "m") {
        ctx.inconclusive.push(format!("cannot restore image: {e}"));
        return Err(());
    }
    let affected = match op {
        Op::Put(k, _) | Op::Del(k) => &keys[*k],
        _ => unreachable!(),
    };
    let pos = chain_position(pre_dec, affected);
    let opname = match op {
        Op::Put(_, _) => {
            if st.model.contains_key(affected) {
                "overwrite"
            } else {
                "insert"
            }
        }
        _ => "delete",
    };
    let fail = |ctx: &mut Ctx, msg: String| {
        // a record that does not fit its slot / bytes of another entry altered: that is C09's statement as well
        let has = |pats: &[&str]| pats.iter().any(|p| msg.contains(p));
        let overflow = has(&["overruns slot", "overruns file", "stranded", "not the start of a slot", "unaligned", "another entry"]);
        let structure = has(&["Chain:", "Placement:", "Dup:", "Count:", "Bitmap:", "ValRef:", "Header:", "Fatal:", "decoded ", "is missing from the decoded"]);
        let storage = has(&["Tiling:", "Membership:", "FreeList:", "Fatal:"]);
        let extension = msg.contains("although the free slot");
        let owners: &'static [&'static str] = match (overflow, structure, storage) {
            _ if extension => &["C06"],
            (true, true, _) => &["C08", "C09", "C05"],
            (true, false, true) => &["C08", "C09", "C06"],
            (true, false, false) => &["C08", "C09"],
            (false, true, true) => &["C08", "C05", "C06"],
            (false, true, false) => &["C08", "C05"],
            (false, false, true) => &["C08", "C06"],
            _ => &["C08"],
        };
        let f = finding(owners, "relocation", 0, format!("{msg} [table {n}, affected key at chain position '{pos}', state depth {}]", st.depth));
        // witness: the start image is not rebuilt from ops alone; record the transition and the state digest
        let h = History { kt: "bytes".into(), cfg: env.cfg, keys: keys.clone(), ops: vec![op.clone()], origin: format!("c08 transition from a state at depth {} (start: val boundary {}, key boundary {}); state image digest {:016x}", st.depth, env.val_boundary, env.key_boundary, st.img.digest()) };
        let stop = ctx.classify(f);
        ctx.record_stop(stop, Some(&h));
    };
    let mut s = Session::<DbBytes>::attach(dir, "m", st.model.clone(), 1000);
    if let Err(e) = s.open(&env.cfg) {
        fail(ctx, format!("state does not reopen: {e}"));
        return Err(());
    }
    ctx.transitions_inc();
    let r = s.apply(0, op, keys, &mon, ctx, 1).and_then(|_| {
        // every key (alphabet + fillers) must read as the model says
        s.full_compare(0, &env.all_keys, &["C08"], &format!("after {}", op.text()), ctx)
    });
    s.close();
    // which records moved
    let notes = abyssiniandb::verif_hooks::take_notes();
    let mut moved = String::new();
    for (k, c) in notes.iter() {
        *ctx.notes_seen.entry(k.to_string()).or_insert(0) += c;
        moved.push_str(k);
        moved.push('+');
    }
    if moved.is_empty() {
        moved.push_str("none");
    }
    ctx.count(&format!("cover.{pos}.{opname}"), 1);
    ctx.count(&format!("moved.{pos}.{opname}.{}", moved.trim_end_matches('+')), 1);
    if let Err(f) = r {
        // judged for another property (`--as`): the call-level mismatch is not ours, but what the files look
        // like now may be
        if !ctx.own.contains(&"C08") {
            if let Ok(post) = Image::read(dir, "m") {
                let dec = decoder::decode(&post, Some(DbBytes::SIG));
                if let Some(p) = dec.problems.iter().find(|p| (ctx.own.contains(&"C05") && p.group.is_structure()) || (ctx.own.contains(&"C06") && p.group.is_storage()) || ctx.own.contains(&"C09")) {
                    fail(ctx, format!("after {}: files no longer decode to the expected contents: {:?}: {}", op.text(), p.group, p.what));
                    return Err(());
                }
            }
        }
        fail(ctx, f.msg.clone());
        return Err(());
    }
    let post = match Image::read(dir, "m") {
        Ok(i) => i,
        Err(e) => {
            ctx.inconclusive.push(format!("cannot read image: {e}"));
            return Err(());
        }
    };
    let dec = decoder::decode(&post, Some(DbBytes::SIG));
    ctx.count("images_decoded", 1);
    let pick = dec.problems.iter().find(|p| (ctx.own.contains(&"C05") && p.group.is_structure()) || (ctx.own.contains(&"C06") && p.group.is_storage())).or(dec.problems.first());
    let prob = pick.map(|p| format!("{:?}: {}", p.group, p.what)).or_else(|| decoder::contents_mismatch(&post, &dec, &s.model));
    if let Some(p) = prob {
        fail(ctx, format!("after {}: files no longer decode to the expected contents: {p}", op.text()));
        return Err(());
    }
    // a file is extended only when no free slot of a suitable size exists (C06): a slot that was free before the call
    // and is still free after it, on the list the new slot's size belongs to, should have been taken instead
    for (nm, pf, qf, plen, qlen) in [("key", &pre_dec.keyf, &dec.keyf, st.img.key.len(), post.key.len()), ("val", &pre_dec.valf, &dec.valf, st.img.val.len(), post.val.len())] {
        if qlen <= plen {
            continue;
        }
        ctx.count("extension_events_audited", 1);
        let free_both: Vec<(u64, u32, usize)> = qf
            .slots
            .iter()
            .filter_map(|q| match (q.kind, pf.slot_at(q.off).map(|p| (p.kind, p.size))) {
                (crate::decoder::SlotKind::Free(l), Some((crate::decoder::SlotKind::Free(_), psz))) if psz == q.size => Some((q.off, q.size, l)),
                _ => None,
            })
            .collect();
        for q in qf.slots.iter().filter(|q| q.off >= plen as u64) {
            let ci = crate::decoder::class_index(q.size);
            if let Some((off, sz, l)) = free_both.iter().find(|(_, sz, l)| *l == ci && (ci < 15 || *sz >= q.size)) {
                fail(ctx, format!("after {}: {nm} file grew from {plen} to {qlen} by a new slot of {} bytes at {} although the free slot at {off} ({sz} bytes, free list {l}) was available before and after the call", op.text(), q.size, q.off));
                return Err(());
            }
        }
    }
    // the same rule for a slot that was freed *inside* this call: a relocation cascade works from the updated record
    // towards the bucket head; each step takes a slot (free list or end of file) and then frees the old one. A record
    // that was appended although a record processed before it (further from the head) had just freed a slot of the
    // class it needed should have taken that slot.
    // (overwrites only: a delete rewrites the predecessor first and frees the deleted record's slot afterwards)
    if post.key.len() > st.img.key.len() && matches!(op, Op::Put(..)) {
        let plen = st.img.key.len() as u64;
        let freed: Vec<(u64, u32, usize, usize)> = dec
            .keyf
            .slots
            .iter()
            .filter_map(|q| match (q.kind, pre_dec.keyf.slot_at(q.off).map(|p| p.kind)) {
                (crate::decoder::SlotKind::Free(l), Some(crate::decoder::SlotKind::Used)) => pre_dec.entries.iter().find(|e| e.key_off == q.off).map(|e| (q.off, q.size, l, e.chain_pos)),
                _ => None,
            })
            .collect();
        for e_new in dec.entries.iter().filter(|e| e.key_off >= plen) {
            let Some(e_pre) = pre_dec.entries.iter().find(|p| p.key == e_new.key) else { continue };
            let ci = crate::decoder::class_index(e_new.key_size);
            if let Some((off, sz, l, _)) = freed.iter().find(|(_, sz, l, pos_old)| *l == ci && (ci < 15 || *sz >= e_new.key_size) && *pos_old > e_pre.chain_pos) {
                fail(ctx, format!("after {}: key file grew from {plen} to {} by a new slot of {} bytes at {} (record of the key at chain position {}) although the free slot at {off} ({sz} bytes, free list {l}) had been freed earlier in the same call by a record further down the chain", op.text(), post.key.len(), e_new.key_size, e_new.key_off, e_pre.chain_pos));
                return Err(());
            }
        }
        ctx.count("in_call_extension_events_audited", 1);
    }
    // the value slots of all other entries are byte-for-byte what they were (same offset, same bytes)
    for e in dec.entries.iter().filter(|e| &e.key != affected) {
        if let Some(p) = pre_dec.entries.iter().find(|p| p.key == e.key) {
            if p.val_off == e.val_off && p.val_size == e.val_size {
                let (a0, a1) = (p.val_off as usize, (p.val_off + p.val_size as u64) as usize);
                if a1 <= st.img.val.len() && a1 <= post.val.len() && st.img.val[a0..a1] != post.val[a0..a1] {
                    fail(ctx, format!("after {}: the value slot of another entry ({}) changed its bytes", op.text(), crate::util::show_bytes(&e.key)));
                    return Err(());
                }
                ctx.count("untouched_value_slots_compared", 1);
            }
        }
    }
    // boundary crossings by width of the stored offset fields
    for e in dec.entries.iter() {
        for (nm, off) in [("value", e.val_off), ("next", e.next)] {
            if off >= 2 * 1024 * 1024 {
                ctx.count(&format!("entries.{nm}_offset_ge_2MiB"), 1);
            } else if off >= 131072 {
                ctx.count(&format!("entries.{nm}_offset_ge_128KiB"), 1);
            } else if off >= 16384 {
                ctx.count(&format!("entries.{nm}_offset_ge_16KiB"), 1);
            }
        }
    }
    Ok((post, s.model.clone(), dec))
}

trait TransInc {
    fn transitions_inc(&mut self);
}
impl TransInc for Ctx {
    fn transitions_inc(&mut self) {
        self.count("transitions", 1);
    }
}
