//! C08: breadth-first exploration of the on-disk state graph of maps whose keys all collide in one bucket.
use super::*;
use crate::decoder::{bucket_of, Decoded};
use crate::ops::value_slot;
use crate::session::Model;
use abyssiniandb::DbBytes;
use std::collections::{HashSet, VecDeque};

struct State {
    img: Image,
    model: Model,
    depth: u32,
}

/// a key of exactly `len` bytes (len >= 6) that the independent hash puts into bucket b of n
fn key_in_bucket(n: u64, b: u64, len: usize, tag: u8, start: &mut u64) -> Vec<u8> {
    loop {
        *start += 1;
        let mut k = vec![tag];
        k.extend_from_slice(format!("{:x}", *start).as_bytes());
        while k.len() < len {
            k.push(b'.');
        }
        k.truncate(len);
        if bucket_of(&k, n) == b {
            return k;
        }
    }
}

fn put(s: &mut Session<DbBytes>, k: &[u8], v: &[u8]) -> Result<(), String> {
    use abyssiniandb::DbXxx;
    s.map.as_mut().unwrap().put(k, v).map_err(|e| e.to_string())?;
    s.model.insert(k.to_vec(), v.to_vec());
    Ok(())
}
fn del(s: &mut Session<DbBytes>, k: &[u8]) -> Result<(), String> {
    use abyssiniandb::DbXxx;
    s.map.as_mut().unwrap().delete(k).map_err(|e| e.to_string())?;
    s.model.remove(k);
    Ok(())
}
fn flush(s: &mut Session<DbBytes>) -> Result<(), String> {
    use abyssiniandb::DbXxxBase;
    s.map.as_mut().unwrap().flush().map_err(|e| e.to_string())
}
fn file_len(s: &Session<DbBytes>, ext: &str) -> u64 {
    std::fs::metadata(s.dir.join(format!("m.{ext}"))).map(|m| m.len()).unwrap_or(0)
}

/// build a start image through the API. kind: 0 empty, 1 val EOF just below `boundary`, 2 key EOF just below `boundary`
fn seed_image(a: &Args, n: u64, b: u64, kind: u32, boundary: u64, ctx: &mut Ctx) -> Result<(Image, Model), String> {
    let dir = a.scratch.join("c08seed");
    let _ = std::fs::remove_dir_all(&dir);
    let cfg = Cfg { buckets: Buckets::Size(n), key: Buf::PerMille(1000), val: Buf::Auto, htx: Buf::PerMille(1000) };
    let mut s = Session::<DbBytes>::create(&dir, "m", &cfg)?;
    let mut ctr = 1000u64;
    if kind != 0 {
        // temporaries that will leave low free slots of several classes in both files
        let temps: Vec<(Vec<u8>, usize)> = [14usize, 22, 30, 46, 22, 62]
            .iter()
            .enumerate()
            .map(|(i, &vl)| (key_in_bucket(n, b, 8 + 4 * i, b'T', &mut ctr), vl))
            .collect();
        for (k, vl) in temps.iter() {
            put(&mut s, k, &crate::util::gen_bytes(*vl, 1, 0))?;
        }
        flush(&mut s)?;
        let target = boundary - 48;
        if kind == 1 {
            let e0 = file_len(&s, "val");
            let want = target - e0;
            let mut len = want.saturating_sub(300);
            while value_slot(len) < want {
                len += 1;
            }
            let fk = key_in_bucket(n, b, 12, b'F', &mut ctr);
            put(&mut s, &fk, &crate::util::gen_bytes(len as usize, 2, 0))?;
            flush(&mut s)?;
            if file_len(&s, "val") != target {
                ctx.count("seed.imprecise", 1);
            }
        } else {
            // long filler keys push the key file to the boundary (two of them: links between them get wide too)
            let e0 = file_len(&s, "key");
            let want = target - e0;
            let half = (want / 2 / 128) * 128;
            for (i, part) in [half, want - half].iter().enumerate() {
                let mut len = part.saturating_sub(300);
                // key slot = payload(enc(len)+len+wv+wn) rounded; search the length whose slot is `part`
                let wn = 2;
                while crate::ops::key_slot(len, 2, wn) < *part {
                    len += 1;
                }
                let fk = key_in_bucket(n, b, len as usize, b'G' + i as u8, &mut ctr);
                put(&mut s, &fk, b"fv")?;
            }
            flush(&mut s)?;
            if file_len(&s, "key") != target {
                ctx.count("seed.imprecise", 1);
            }
        }
        for (k, _) in temps.iter() {
            del(&mut s, k)?;
        }
    }
    let model = s.model.clone();
    s.close();
    let img = Image::read(&dir, "m").map_err(|e| e.to_string())?;
    let _ = std::fs::remove_dir_all(&dir);
    Ok((img, model))
}

fn chain_position(dec: &Decoded, key: &[u8]) -> &'static str {
    match dec.entries.iter().find(|e| e.key == key) {
        None => "absent",
        Some(e) => {
            if e.chain_len == 1 {
                "only"
            } else if e.chain_pos == 0 {
                "first"
            } else if e.chain_pos + 1 == e.chain_len {
                "last"
            } else {
                "middle"
            }
        }
    }
}

pub fn run(a: &Args) -> Ctx {
    let mut ctx = Ctx::new("C08", &["C08"], &a.replay_dir, &a.shard_name());
    let cap = a.get_u64("states", 2500) as usize;
    // shard -> (table, start image)
    let variants: Vec<(u64, u32, u64)> = {
        let mut v = vec![(1u64, 0u32, 0u64), (8, 0, 0), (1, 1, 16384), (8, 1, 16384), (1, 2, 16384), (8, 2, 16384)];
        if a.thorough {
            v.push((1, 1, 2 * 1024 * 1024));
            v.push((8, 2, 2 * 1024 * 1024));
        }
        v
    };
    let (n, kind, boundary) = variants[a.shard % variants.len()];
    let salt = (a.shard / variants.len()) as u64 + a.seed * 31;
    let b = salt % n;
    // alphabet: key lengths exactly on slot edges for the offset widths in play
    let lens_all = [11usize, 10, 9, 19, 18, 27, 12];
    let nk = 4 + (salt % 2) as usize;
    let mut ctr = 7 * salt;
    let keys: Vec<Vec<u8>> = (0..nk).map(|i| key_in_bucket(n, b, lens_all[(i + salt as usize) % lens_all.len()], b'k', &mut ctr)).collect();
    let val_sets: [&[u32]; 3] = [&[14, 15, 300, 1100], &[0, 22, 23, 5000], &[14, 126, 127, 2000]];
    let vals: Vec<ValSpec> = val_sets[(salt % 3) as usize].iter().enumerate().map(|(i, &l)| ValSpec { len: l, seed: i as u32 + 1, kind: 0 }).collect();
    let mut transitions: Vec<Op> = Vec::new();
    for k in 0..keys.len() {
        for v in vals.iter() {
            transitions.push(Op::Put(k, *v));
        }
        transitions.push(Op::Del(k));
    }
    let (img0, model0) = match seed_image(a, n, b, kind, boundary, &mut ctx) {
        Ok(x) => x,
        Err(e) => {
            ctx.inconclusive.push(format!("cannot build the start image: {e}"));
            return ctx;
        }
    };
    ctx.count(&format!("start.table{n}.kind{kind}.boundary{boundary}"), 1);
    let mut sample = J::obj();
    sample.set("table", J::u(n));
    sample.set("start", J::s(match kind { 0 => "empty".to_string(), 1 => format!("val EOF just below {boundary}"), _ => format!("key EOF just below {boundary}") }));
    sample.set("keys", J::Arr(keys.iter().map(|k| J::s(crate::util::show_bytes(k))).collect()));
    sample.set("value_lengths", J::Arr(vals.iter().map(|v| J::u(v.len as u64)).collect()));
    sample.set("transitions_per_state", J::u(transitions.len() as u64));
    ctx.samples.push(sample);

    let mut all_keys = keys.clone();
    all_keys.extend(model0.keys().cloned());
    let dir = a.scratch.join("c08");
    let mut seen: HashSet<u64> = HashSet::new();
    let mut queue: VecDeque<State> = VecDeque::new();
    seen.insert(img0.digest());
    queue.push_back(State { img: img0, model: model0, depth: 0 });
    let mon = Mon::default();
    let cfg = Cfg { buckets: Buckets::Size(n), key: Buf::PerMille(1000), val: Buf::Auto, htx: Buf::PerMille(1000) };
    let mut states = 0usize;
    let mut closed = true;
    'bfs: while let Some(st) = queue.pop_front() {
        states += 1;
        ctx.count("states", 1);
        ctx.max("max_depth", st.depth as u64);
        let pre_dec = decoder::decode(&st.img, Some(DbBytes::SIG));
        for (ti, op) in transitions.iter().enumerate() {
            let _ = std::fs::remove_dir_all(&dir);
            if let Err(e) = st.img.write(&dir, "m") {
                ctx.inconclusive.push(format!("cannot restore image: {e}"));
                break 'bfs;
            }
            let affected = match op {
                Op::Put(k, _) | Op::Del(k) => &keys[*k],
                _ => unreachable!(),
            };
            let pos = chain_position(&pre_dec, affected);
            let opname = match op {
                Op::Put(_, _) => if st.model.contains_key(affected) { "overwrite" } else { "insert" },
                _ => "delete",
            };
            let fail = |ctx: &mut Ctx, msg: String, at: usize| -> (Stop, History) {
                let f = finding(&["C08"], "relocation", at, format!("{msg} [table {n}, affected key at chain position '{pos}', state depth {}]", st.depth));
                // witness: rebuild is not possible from ops alone (start image); record the single transition
                let h = History { kt: "bytes".into(), cfg, keys: keys.clone(), ops: vec![op.clone()], origin: format!("c08 transition from a state at depth {} (start kind {kind}, boundary {boundary}); state image digest {:016x}", st.depth, st.img.digest()) };
                (ctx.classify(f), h)
            };
            let mut s = Session::<DbBytes> { dir: dir.clone(), name: "m".into(), db: None, map: None, extra: vec![], model: st.model.clone(), n_buckets: 0, budget: crate::session::STEP_BUDGET_BASE, updates_since_sync: 0, last_decoded: None, peak_live: 1000 };
            if let Err(e) = s.open(&cfg) {
                let (stop, h) = fail(&mut ctx, format!("state does not reopen: {e}"), 0);
                ctx.record_stop(stop, Some(&h));
                break 'bfs;
            }
            ctx.transitions_inc();
            let r = s.apply(0, op, &keys, &mon, &mut ctx, 1).and_then(|_| {
                // every key (alphabet + fillers) must read as the model says
                s.full_compare(0, &all_keys, &["C08"], &format!("after {}", op.text()), &mut ctx)
            });
            s.close();
            // which records moved
            let notes = abyssiniandb::verif_hooks::take_notes();
            let mut moved = String::new();
            for (k, c) in notes.iter() {
                *ctx.notes_seen.entry(k.to_string()).or_insert(0) += c;
                moved.push_str(k);
                moved.push('+');
            }
            if moved.is_empty() {
                moved.push_str("none");
            }
            ctx.count(&format!("cover.{pos}.{opname}"), 1);
            ctx.count(&format!("moved.{pos}.{opname}.{}", moved.trim_end_matches('+')), 1);
            if let Err(f) = r {
                let (stop, h) = fail(&mut ctx, f.msg.clone(), ti);
                ctx.record_stop(stop, Some(&h));
                break 'bfs;
            }
            let post = match Image::read(&dir, "m") {
                Ok(i) => i,
                Err(e) => {
                    ctx.inconclusive.push(format!("cannot read image: {e}"));
                    break 'bfs;
                }
            };
            let dec = decoder::decode(&post, Some(DbBytes::SIG));
            ctx.count("images_decoded", 1);
            let prob = dec.problems.first().map(|p| format!("{:?}: {}", p.group, p.what)).or_else(|| decoder::contents_mismatch(&post, &dec, &s.model));
            if let Some(p) = prob {
                let (stop, h) = fail(&mut ctx, format!("after {}: files no longer decode to the expected contents: {p}", op.text()), ti);
                ctx.record_stop(stop, Some(&h));
                break 'bfs;
            }
            // boundary crossings by width
            for e in dec.entries.iter() {
                if e.val_off >= 16384 {
                    ctx.count("entries_with_wide_value_offset", 1);
                }
                if e.next >= 16384 {
                    ctx.count("entries_with_wide_next_offset", 1);
                }
            }
            let dg = post.digest();
            if seen.insert(dg) {
                if seen.len() <= cap {
                    queue.push_back(State { img: post, model: s.model.clone(), depth: st.depth + 1 });
                } else {
                    closed = false;
                }
            } else {
                ctx.count("dedup_hits", 1);
            }
        }
        if states >= cap {
            closed = queue.is_empty();
            break;
        }
    }
    let _ = std::fs::remove_dir_all(&dir);
    ctx.evaluations = ctx.counters.get("transitions").copied().unwrap_or(0);
    ctx.count(if closed && queue.is_empty() { "closure_reached" } else { "state_cap_reached" }, 1);
    for d in seen.iter() {
        ctx.digests.insert(*d);
        ctx.nontrivial.insert(*d);
    }
    ctx
}

trait TransInc {
    fn transitions_inc(&mut self);
}
impl TransInc for Ctx {
    fn transitions_inc(&mut self) {
        self.count("transitions", 1);
    }
}
