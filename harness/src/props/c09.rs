//! C09: any key/value length fits its slot; neighbours are never overwritten.
use super::*;
use crate::decoder::{vu_len, CLASSES};
use crate::session::Model;
use abyssiniandb::verif_hooks as hooks;
use abyssiniandb::{DbBytes, DbXxx, DbXxxBase};

fn legal_slot(s: u32) -> bool {
    CLASSES.contains(&s) || (s > 1024 && s % 128 == 0)
}

/// representative offsets for every width of the estimate, smallest and largest of the width (multiples of 8)
fn width_offsets() -> Vec<u64> {
    let mut v = vec![0u64, 120];
    for w in 2..=9u32 {
        let lo = 1u64 << (7 * (w - 1));
        let hi = if w >= 9 { u64::MAX - 7 } else { (1u64 << (7 * w)) - 8 };
        v.push(lo);
        v.push(hi);
    }
    v
}

/// exhaustive sizing arithmetic through the hook that calls the crate's own sizing code
pub fn probe(a: &Args) -> Ctx {
    let mut ctx = Ctx::new("C09", &["C09"], &a.replay_dir, &a.shard_name());
    let max_val = a.get_u64("max_val", 1 << 24) as usize;
    let max_key = a.get_u64("max_key", 1 << 16) as usize;
    let mut min_slack: i64 = i64::MAX;
    let mut max_waste: u64 = 0;
    // slot sizes observed / observed exactly full (measured, used for the distinct counts)
    let mut slots_seen: std::collections::HashSet<u32> = Default::default();
    let mut slots_full: std::collections::HashSet<u32> = Default::default();
    let mut bad: Option<String> = None;
    if a.shard == 0 {
        let mut n = 0u64;
        hooks::value_slot_sizes(max_val, &mut |len, _estimate, slot| {
            n += 1;
            let enc = vu_len(slot as u64 / 8) as u64 + vu_len(len as u64) as u64 + len as u64;
            let slack = slot as i64 - enc as i64;
            slots_seen.insert(slot);
            if slack == 0 {
                slots_full.insert(slot);
            }
            if slack < min_slack {
                min_slack = slack;
            }
            if slack >= 0 && slack as u64 > max_waste {
                max_waste = slack as u64;
            }
            if bad.is_none() && (enc > slot as u64 || !legal_slot(slot) || slot % 8 != 0) {
                bad = Some(format!("value length {len}: the crate reserves a slot of {slot} bytes, the encoded record needs {enc} (legal slot size: {})", legal_slot(slot)));
            }
        });
        ctx.count("probe.value_lengths", n);
        ctx.evaluations += n;
        ctx.count("probe.value_domain_complete", (max_val == 1 << 24) as u64);
    }
    if let Some(m) = bad.take() {
        let f = finding(&["C09"], "sizing", 0, m);
        let st = ctx.classify(f);
        ctx.record_stop(st, None);
        return ctx;
    }
    let offs = width_offsets();
    let pairs: Vec<(u64, u64)> = offs.iter().flat_map(|&v| offs.iter().map(move |&n| (v, n))).collect();
    let mut klen = a.shard;
    let mut nk = 0u64;
    while klen <= max_key {
        let key = DbBytes::from(vec![0x41u8; klen]);
        let res = hooks::key_slot_sizes(key, &pairs);
        for (&(voff, next), &(_estimate, slot)) in pairs.iter().zip(res.iter()) {
            let enc = vu_len(slot as u64 / 8) as u64 + vu_len(klen as u64) as u64 + klen as u64 + vu_len(voff / 8) as u64 + vu_len(next / 8) as u64;
            let slack = slot as i64 - enc as i64;
            slots_seen.insert(slot | 0x8000_0000);
            if slack == 0 {
                slots_full.insert(slot | 0x8000_0000);
            }
            if slack < min_slack {
                min_slack = slack;
            }
            if slack >= 0 && slack as u64 > max_waste {
                max_waste = slack as u64;
            }
            if enc > slot as u64 || !legal_slot(slot) {
                let f = finding(&["C09"], "sizing", 0, format!("key length {klen} with value offset {voff} and next offset {next}: the crate reserves a slot of {slot} bytes, the encoded record needs {enc} (legal slot size: {})", legal_slot(slot)));
                let st = ctx.classify(f);
                ctx.record_stop(st, None);
                return ctx;
            }
        }
        nk += pairs.len() as u64;
        klen += a.nshards;
    }
    ctx.count("probe.key_evaluations", nk);
    ctx.count("probe.offset_pairs", pairs.len() as u64);
    ctx.evaluations += nk;
    ctx.max("probe.max_waste", max_waste);
    ctx.counters.insert("probe.min_slack_plus_1000".into(), (min_slack.min(1_000_000) + 1000) as u64);
    // distinct = slot sizes the crate chose; non-trivial = slot sizes that some length fills to the last byte
    for s in slots_seen.iter() {
        ctx.digests.insert(*s as u64);
    }
    for s in slots_full.iter() {
        ctx.nontrivial.insert(*s as u64);
    }
    let mut s = J::obj();
    s.set("kind", J::s("sizing probe"));
    s.set("example", J::s(format!("key length {} x {} offset pairs, offsets {:?}", a.shard, pairs.len(), &offs[..6])));
    ctx.samples.push(s);
    ctx
}

struct Triple {
    dir: PathBuf,
    db: Option<abyssiniandb::filedb::FileDb>,
    map: Option<abyssiniandb::filedb::FileDbMapDbBytes>,
    model: Model,
}

impl Triple {
    fn new(dir: PathBuf) -> Triple {
        let _ = std::fs::remove_dir_all(&dir);
        let db = abyssiniandb::open_file(&dir).unwrap();
        let map = db.db_map_bytes_with_params("m", Cfg::small(8).params()).unwrap();
        Triple { dir, db: Some(db), map: Some(map), model: Model::new() }
    }
    fn put(&mut self, k: &[u8], v: &[u8]) -> Result<(), String> {
        let m = self.map.as_mut().unwrap();
        match crate::session::guarded(crate::session::STEP_BUDGET_BASE, || m.put(k, v)) {
            crate::session::Guard::Ok(Ok(())) => {
                self.model.insert(k.to_vec(), v.to_vec());
                Ok(())
            }
            crate::session::Guard::Ok(Err(e)) => Err(format!("put returned Err: {e}")),
            crate::session::Guard::Hang(m) | crate::session::Guard::Panic(m) => Err(format!("put panicked/hung: {m}")),
        }
    }
    /// every entry reads back byte-for-byte; the files decode; returns raw slot bytes of the named keys
    fn check(&mut self, watch: &[&[u8]], ctx: &mut Ctx) -> Result<Vec<Vec<u8>>, String> {
        let m = self.map.as_mut().unwrap();
        for (k, v) in self.model.iter() {
            match crate::session::guarded(crate::session::STEP_BUDGET_BASE, || m.get(&k[..])) {
                crate::session::Guard::Ok(Ok(Some(got))) if &got == v => {}
                crate::session::Guard::Ok(Ok(got)) => return Err(format!("entry with key length {} / value length {} reads back as {:?}", k.len(), v.len(), got.map(|g| crate::util::show_bytes(&g)))),
                crate::session::Guard::Ok(Err(e)) => return Err(format!("get returned Err: {e}")),
                crate::session::Guard::Hang(m) | crate::session::Guard::Panic(m) => return Err(format!("get panicked/hung: {m}")),
            }
            ctx.count("sentinel_comparisons", 1);
        }
        m.flush().map_err(|e| format!("flush: {e}"))?;
        let img = Image::read(&self.dir, "m").map_err(|e| e.to_string())?;
        let dec = decoder::decode(&img, Some(DbBytes::SIG));
        ctx.count("images_decoded", 1);
        if let Some(p) = dec.problems.first() {
            return Err(format!("files do not decode: {:?}: {}", p.group, p.what));
        }
        if let Some(mm) = decoder::contents_mismatch(&img, &dec, &self.model) {
            return Err(format!("files decode to other contents: {mm}"));
        }
        let mut raws = Vec::new();
        for w in watch {
            let e = dec.entries.iter().find(|e| e.key == *w).ok_or("watched key not decoded")?;
            let mut raw = img.key[e.key_off as usize..(e.key_off + e.key_size as u64) as usize].to_vec();
            raw.extend_from_slice(&img.val[e.val_off as usize..(e.val_off + e.val_size as u64) as usize]);
            raws.push(raw);
        }
        Ok(raws)
    }
    fn del(&mut self, k: &[u8]) -> Result<(), String> {
        let m = self.map.as_mut().unwrap();
        match crate::session::guarded(crate::session::STEP_BUDGET_BASE, || m.delete(k)) {
            crate::session::Guard::Ok(Ok(got)) => {
                let want = self.model.remove(k);
                if got != want {
                    return Err(format!("delete of a key of length {} returned a value of length {:?}, the model holds {:?}", k.len(), got.map(|g| g.len()), want.map(|g| g.len())));
                }
                Ok(())
            }
            crate::session::Guard::Ok(Err(e)) => Err(format!("delete returned Err: {e}")),
            crate::session::Guard::Hang(m) | crate::session::Guard::Panic(m) => Err(format!("delete panicked/hung: {m}")),
        }
    }
    fn close(&mut self) {
        self.map = None;
        self.db = None;
        let _ = std::fs::remove_dir_all(&self.dir);
    }
}

fn value_case(a: &Args, l: u32, ctx: &mut Ctx) -> Result<(), String> {
    let (ka, kx, kb) = (b"sentinelA".to_vec(), b"X".to_vec(), b"sentinelB".to_vec());
    let sa = crate::util::gen_bytes(29, 1, 0);
    let sb = crate::util::gen_bytes(45, 2, 0);
    // lengths to overwrite X(l) with: one byte shorter / longer, filling its slot to the brim and just beyond
    // (the brim depends on the slot X already has, not on l), a class-crossing one, a much shorter one
    let slot = crate::ops::value_slot(l as u64);
    let mut brim = l as u64;
    while crate::ops::value_slot(brim + 1) == slot {
        brim += 1;
    }
    let mut news: Vec<u32> = vec![l.saturating_sub(1), l + 1, brim as u32, brim as u32 + 1, brim as u32 + 2, brim as u32 + 3, slot as u32, slot as u32 + 1, l / 2];
    if l >= 4 << 20 {
        // 16 MiB values: the neighbours of l and the first length that leaves the slot
        news = vec![l - 1, l + 1, brim as u32 + 1];
    } else if l >= 200_000 {
        // a value that keeps its slot while shrinking by more than 128 KiB (the unused tail of the slot is still its own)
        news.push(l - 131_072 - 300);
        news.push(l - 140_000);
    }
    news.retain(|&x| x != l);
    news.sort_unstable();
    news.dedup();
    for nl in news {
        // a fresh triple per overwrite: A, X, B sit in adjacent slots, so a spill out of X lands in B
        let mut t = Triple::new(a.scratch.join("c09v"));
        t.put(&ka, &sa)?;
        t.put(&kx, &crate::util::gen_bytes(l as usize, l, 0))?;
        t.put(&kb, &sb)?;
        let r0 = t.check(&[&ka, &kb], ctx)?;
        t.put(&kx, &crate::util::gen_bytes(nl as usize, nl ^ 0x55, 0))?;
        let r = t.check(&[&ka, &kb], ctx).map_err(|e| format!("after overwriting it by a value of length {nl}: {e}"))?;
        if r != r0 {
            return Err(format!("overwriting the value of length {l} by one of length {nl} changed the raw slot bytes of a neighbouring entry"));
        }
        // a shorter value may now sit in the bigger slot: fill that slot to the brim and just beyond (the width of
        // the length field can differ from the one the shorter value had)
        if nl < l {
            if l >= 200_000 && nl + 131_072 <= l {
                // another large entry arrives while X is small: it must not land inside X's slot
                t.put(b"guest", &crate::util::gen_bytes(100_000, 41, 0))?;
                t.put(b"guest2", &crate::util::gen_bytes(30_000, 42, 0))?;
                ctx.count("guests_next_to_a_shrunken_value", 1);
            }
            for third in [brim as u32, brim as u32 + 1, brim as u32 + 2] {
                t.put(&kx, &crate::util::gen_bytes(third as usize, third ^ 0x99, 0))?;
                let r = t.check(&[&ka, &kb], ctx).map_err(|e| format!("after overwriting it by length {nl} and then by length {third}: {e}"))?;
                if r != r0 {
                    return Err(format!("overwriting the value of length {l} by {nl} and then by {third} changed the raw slot bytes of a neighbouring entry"));
                }
                t.put(&kx, &crate::util::gen_bytes(nl as usize, nl ^ 0x55, 0))?;
                ctx.count("overwrites_checked", 2);
            }
        }
        // and back to the original length
        t.put(&kx, &crate::util::gen_bytes(l as usize, l, 0))?;
        let r = t.check(&[&ka, &kb], ctx).map_err(|e| format!("after overwriting it by length {nl} and again by length {l}: {e}"))?;
        if r != r0 {
            return Err(format!("overwriting the value of length {l} by {nl} and back changed the raw slot bytes of a neighbouring entry"));
        }
        ctx.count("overwrites_checked", 2);
        t.close();
    }
    Ok(())
}

fn key_case(a: &Args, l: u32, high_value_offsets: bool, ctx: &mut Ctx) -> Result<(), String> {
    let mut t = Triple::new(a.scratch.join("c09k"));
    if high_value_offsets {
        t.put(b"filler", &crate::util::gen_bytes(17000, 9, 0))?;
    }
    let ka = b"sentinelKA".to_vec();
    let kb = b"sentinelKB".to_vec();
    let mut kx = crate::util::gen_bytes(l as usize, l ^ 0x77, 0);
    if kx == ka || kx == kb || kx == b"filler" {
        kx[0] ^= 1;
    }
    t.put(&ka, b"a")?;
    t.put(&kx, &crate::util::gen_bytes(20, 3, 0))?;
    t.put(&kb, b"b")?;
    let r0 = t.check(&[&ka, &kb], ctx)?;
    // grow the value so that it relocates (value offset changes, key record is rewritten / moved)
    for nl in [200u32, 20, 3000] {
        t.put(&kx, &crate::util::gen_bytes(nl as usize, nl, 0))?;
        let r = t.check(&[&ka, &kb], ctx)?;
        if r != r0 {
            return Err(format!("rewriting the entry with key length {l} changed the raw slot bytes of a neighbouring entry"));
        }
    }
    t.close();
    Ok(())
}

/// Free slots of the shared large list (>= 1024 bytes) with a record of length `lp` as the *predecessor* of the slot
/// that is taken out of the middle of the list: d, c, p are freed in that order (list p -> c -> d), a request that
/// fits c but not p unlinks c (p's link field is rewritten: its position depends on the width of p's slot-size
/// field), the next requests take p, walk on to d and reuse it. Sentinels sit in front, between and behind; a
/// link that went astray hands a live slot to a later request. `keys`: the large records are keys, not values.
fn freelist_case(a: &Args, lp: u32, keys: bool, ctx: &mut Ctx) -> Result<(), String> {
    let mut t = Triple::new(a.scratch.join(if keys { "c09fk" } else { "c09fv" }));
    let big = |tag: u8, len: u32| -> Vec<u8> {
        let mut v = crate::util::gen_bytes(len as usize, len ^ tag as u32, 0);
        if !v.is_empty() {
            v[0] = tag;
        }
        v
    };
    // a live record at low offsets (a stray link shifted right by one byte lands in the first few hundred slots)
    let lead = if keys { 30_000u32 } else { 48_880 };
    let ld = if lp >= 100_000 { 70_000u32 } else { lp / 2 + 1100 };
    let lc = lp + lp / 2 + 2048;
    let (lc, lreq) = if keys && lc > 65_535 && lp <= 65_535 { (65_535, (lp + 65_535) / 2) } else { (lc, lp + lp / 4 + 1024) };
    let mut sentinels: Vec<Vec<u8>> = Vec::new();
    let put_big = |t: &mut Triple, tag: u8, len: u32| -> Result<Vec<u8>, String> {
        if keys {
            let k = big(tag, len);
            t.put(&k, &[tag; 5])?;
            Ok(k)
        } else {
            let k = vec![b'K', tag];
            t.put(&k, &big(tag, len))?;
            Ok(k)
        }
    };
    let mut sentinel = |t: &mut Triple, i: u8| -> Result<(), String> {
        let k = format!("sentinel{i}").into_bytes();
        t.put(&k, &crate::util::gen_bytes(20 + i as usize * 7, i as u32, 0))?;
        sentinels.push(k);
        Ok(())
    };
    let _lead = put_big(&mut t, 1, lead)?;
    sentinel(&mut t, 0)?;
    let kd = put_big(&mut t, 2, ld)?;
    sentinel(&mut t, 1)?;
    let kc = put_big(&mut t, 3, lc)?;
    sentinel(&mut t, 2)?;
    let kp = put_big(&mut t, 4, lp)?;
    sentinel(&mut t, 3)?;
    let w: Vec<&[u8]> = sentinels.iter().map(|k| &k[..]).collect();
    // (no raw-byte comparison here: deleting or adding a key of the same bucket legitimately rewrites the chain link
    // inside a sentinel's key record; every live entry is read back and the files are decoded after each step)
    t.check(&w, ctx)?;
    for order in [[&kd, &kc, &kp]] {
        for k in order {
            t.del(k)?;
        }
    }
    t.check(&w, ctx).map_err(|e| format!("after deleting three large records: {e}"))?;
    // does not fit p (the head), fits c: unlinked from the middle, p is its predecessor, d its successor
    for (i, len) in [lreq, lp.saturating_sub(40).max(1024), ld.saturating_sub(40).max(1024), 40_000, 1500].into_iter().enumerate() {
        put_big(&mut t, 10 + i as u8, len)?;
        t.check(&w, ctx).map_err(|e| format!("after request {} (length {len}) served from the large free list: {e}", i + 1))?;
        ctx.count("freelist.requests_served", 1);
    }
    ctx.count(if keys { "freelist.key_cases" } else { "freelist.value_cases" }, 1);
    t.close();
    Ok(())
}

fn run_lengths(a: &Args, ctx: &mut Ctx, vals: &[u32], keys: &[u32]) {
    for (i, &l) in vals.iter().enumerate() {
        if i % a.nshards != a.shard {
            continue;
        }
        ctx.evaluations += 1;
        ctx.count("sweep.value_lengths", 1);
        ctx.max("sweep.max_value_length", l as u64);
        ctx.digests.insert(l as u64);
        ctx.nontrivial.insert(l as u64);
        if let Err(m) = value_case(a, l, ctx) {
            let h = History { kt: "bytes".into(), cfg: Cfg::small(8), keys: vec![b"sentinelA".to_vec(), b"X".to_vec(), b"sentinelB".to_vec()], ops: vec![Op::Put(0, ValSpec { len: 29, seed: 1, kind: 0 }), Op::Put(1, ValSpec { len: l, seed: l, kind: 0 }), Op::Put(2, ValSpec { len: 45, seed: 2, kind: 0 })], origin: format!("c09 value sweep length {l}") };
            let st = ctx.classify(finding(&["C09"], "sweep", 1, format!("value length {l}: {m}")));
            ctx.record_stop(st, Some(&h));
            return;
        }
    }
    for (i, &l) in keys.iter().enumerate() {
        if i % a.nshards != a.shard {
            continue;
        }
        ctx.evaluations += 1;
        ctx.count("sweep.key_lengths", 1);
        ctx.max("sweep.max_key_length", l as u64);
        ctx.digests.insert((1 << 32) | l as u64);
        ctx.nontrivial.insert((1 << 32) | l as u64);
        if let Err(m) = key_case(a, l, i % 2 == 1, ctx) {
            let st = ctx.classify(finding(&["C09"], "sweep", 1, format!("key length {l} (value offsets above 16 KiB: {}): {m}", i % 2 == 1)));
            ctx.record_stop(st, None);
            return;
        }
    }
}

pub fn run(a: &Args) -> Ctx {
    let mut ctx = Ctx::new("C09", &["C09"], &a.replay_dir, &a.shard_name());
    let step = a.get_u64("step", 1) as usize;
    let mut vals: Vec<u32> = (0..=4200u32).step_by(step).collect();
    if step > 1 {
        // always keep every slot-class edge
        let ed = edges();
        vals.extend(ed.val_small.iter().copied());
        vals.extend(ed.val_mid.iter().copied().filter(|&x| x <= 4200));
    }
    for c in [4096u32, 8192, 16384, 131072, 1 << 20, 1 << 21] {
        for d in 0..=6u32 {
            vals.push(c + d - 3);
        }
    }
    for c in [131063u32] {
        for d in 0..=16u32 {
            vals.push(c + d - 8);
        }
    }
    // slots of 16 MiB and more (the slot-size field grows to four bytes): thorough takes every length around the edge
    if a.thorough {
        for d in 0..=2u32 {
            vals.push((1 << 24) - 4 + d);
        }
        for d in 0..=24u32 {
            vals.push(16_777_070 + d);
        }
    } else {
        vals.extend_from_slice(&[16_777_072, 16_777_080, 16_777_081, 16_777_088, (1 << 24) - 3]);
    }
    vals.sort_unstable();
    vals.dedup();
    let mut keys: Vec<u32> = (0..=2100u32).step_by(step).collect();
    if step > 1 {
        let ed = edges();
        keys.extend(ed.key_small.iter().copied());
        keys.extend(ed.key_mid.iter().copied().filter(|&x| x <= 2100));
    }
    for c in [4096u32, 65535] {
        for d in 0..=6u32 {
            if c + d >= 3 && c + d - 3 <= 65535 {
                keys.push(c + d - 3);
            }
        }
    }
    // beyond the 16-bit key length and around the 128 KiB slot (three-byte slot-size field of a key record)
    keys.extend_from_slice(&[65_536, 65_537, 70_000, 130_900, 130_950, 131_050, 131_071, 131_072, 131_080, 140_000]);
    keys.sort_unstable();
    keys.dedup();
    // large free list: predecessor lengths on both sides of every width of the slot-size field
    let mut preds: Vec<(u32, bool)> = Vec::new();
    for lp in [1100u32, 2000, 5000, 16_300, 16_500, 65_000, 130_900, 131_050, 131_060, 131_064, 131_072, 131_200, 140_000, 200_000, 1 << 20, (1 << 21) + 77] {
        preds.push((lp, false));
    }
    for lp in [1100u32, 5000, 16_300, 40_000, 65_535, 131_100, 140_000] {
        preds.push((lp, true));
    }
    if a.thorough {
        preds.push((16_777_100, false));
        preds.push(((1 << 24) + 4096, false));
    }
    let mut stopped = false;
    for (i, &(lp, k)) in preds.iter().enumerate() {
        if i % a.nshards != a.shard {
            continue;
        }
        ctx.evaluations += 1;
        ctx.digests.insert((2 << 32) | ((k as u64) << 31) | lp as u64);
        ctx.nontrivial.insert((2 << 32) | ((k as u64) << 31) | lp as u64);
        if let Err(m) = freelist_case(a, lp, k, &mut ctx) {
            let st = ctx.classify(finding(&["C09"], "sweep", 1, format!("large free list, predecessor {} of length {lp}: {m}", if k { "key" } else { "value" })));
            ctx.record_stop(st, None);
            stopped = true;
            break;
        }
    }
    if !stopped {
        run_lengths(a, &mut ctx, &vals, &keys);
    }
    ctx.drain_notes();
    let mut s = J::obj();
    s.set("kind", J::s("end-to-end sweep: sentinel A, X(L), sentinel B adjacent; X overwritten by L-1, L+1, class-crossing, L/2, L"));
    s.set("value_lengths_first", J::Arr(vals.iter().take(12).map(|x| J::u(*x as u64)).collect()));
    s.set("value_lengths_last", J::Arr(vals.iter().rev().take(8).map(|x| J::u(*x as u64)).collect()));
    ctx.samples.push(s);
    ctx
}

/// reduced sweep for the UB interpreters
pub fn sweep_small(a: &Args, ctx: &mut Ctx, max: u32) {
    let mut vals: Vec<u32> = vec![0, 1, 13, 14, 15, 22, 23, 126, 127, 128, 253, 254, 1014, 1015, 1019, 1020, 4095, 4096, 4097];
    vals.retain(|&x| x <= max.max(15));
    let keys: Vec<u32> = vec![0, 1, 9, 10, 11, 12, 19, 20, 126, 127, 128];
    let one = Args { cmd: String::new(), seed: a.seed, thorough: false, shard: 0, nshards: 1, out: None, scratch: a.scratch.clone(), replay_dir: a.replay_dir.clone(), extra: Default::default(), positional: vec![] };
    run_lengths(&one, ctx, &vals, &keys);
}
