//! C10: typed integer and string keys are faithful.
use super::*;
use abyssiniandb::{DbBytes, DbI64, DbMap, DbMapKeyType, DbString, DbU64, DbVu64, DbXxx, DbXxxBase};
use std::collections::{BTreeMap, BTreeSet};

fn boundary_values() -> Vec<u64> {
    let mut s: BTreeSet<u64> = BTreeSet::new();
    s.insert(0);
    s.insert(u64::MAX);
    for k in 0..64u32 {
        let p = 1u64 << k;
        s.insert(p);
        s.insert(p.wrapping_sub(1));
        s.insert(p.wrapping_add(1));
        s.insert(!p);
    }
    for k in 1..=9u32 {
        for base in [7 * k, 8 * k] {
            if base < 64 {
                let p = 1u64 << base;
                for d in [-2i64, -1, 0, 1, 2] {
                    s.insert(p.wrapping_add(d as u64));
                }
            }
        }
    }
    s.into_iter().collect()
}

fn fail(ctx: &mut Ctx, msg: String) {
    let st = ctx.classify(finding(&["C10"], "typed_keys", 0, msg));
    ctx.record_stop(st, None);
}

/// conversion laws for one integer
fn laws(x: u64, ctx: &mut Ctx, lens_seen: &mut BTreeSet<usize>) -> Result<(), String> {
    // u64
    let a = DbU64::from(x);
    let b = DbU64::from(&x);
    if a != b || a.as_bytes() != b.as_bytes() {
        return Err(format!("DbU64: by-value and by-reference conversion of {x} differ"));
    }
    if u64::from(a.clone()) != x || u64::from(&a) != x {
        return Err(format!("DbU64: {x} converts back to {} / {}", u64::from(a.clone()), u64::from(&a)));
    }
    if DbU64::from(&a) != a || DbU64::from_bytes(a.as_bytes()) != a {
        return Err(format!("DbU64: key of {x} does not survive from(&key)/from_bytes(as_bytes)"));
    }
    // i64
    let xi = x as i64;
    let a = DbI64::from(xi);
    let b = DbI64::from(&xi);
    if a != b || a.as_bytes() != b.as_bytes() {
        return Err(format!("DbI64: by-value and by-reference conversion of {xi} differ"));
    }
    if i64::from(a.clone()) != xi || i64::from(&a) != xi {
        return Err(format!("DbI64: {xi} converts back to {} / {}", i64::from(a.clone()), i64::from(&a)));
    }
    if DbI64::from(&a) != a || DbI64::from(a.clone()) != a || DbI64::from_bytes(a.as_bytes()) != a {
        return Err(format!("DbI64: key of {xi} does not survive from(key)/from_bytes(as_bytes)"));
    }
    // vu64
    let a = DbVu64::from(x);
    let b = DbVu64::from(&x);
    if a != b || a.as_bytes() != b.as_bytes() {
        return Err(format!("DbVu64: by-value and by-reference conversion of {x} differ"));
    }
    if u64::from(a.clone()) != x || u64::from(&a) != x {
        return Err(format!("DbVu64: {x} converts back to {} / {}", u64::from(a.clone()), u64::from(&a)));
    }
    if DbVu64::from(&a) != a || DbVu64::from_bytes(a.as_bytes()) != a {
        return Err(format!("DbVu64: key of {x} does not survive from(&key)/from_bytes(as_bytes)"));
    }
    // independent encoder agrees (format stability of the stored key bytes)
    if a.as_bytes() != crate::decoder::vu_encode(x).as_slice() {
        return Err(format!("DbVu64: stored bytes of {x} are {:?}, the documented vu64 encoding is {:?}", a.as_bytes(), crate::decoder::vu_encode(x)));
    }
    lens_seen.insert(a.as_bytes().len());
    // cmp_u8 must order/equal like the integers do
    let y = x ^ 1;
    let other = DbVu64::from(y);
    if a.cmp_u8(other.as_bytes()) == std::cmp::Ordering::Equal || a.cmp_u8(a.as_bytes()) != std::cmp::Ordering::Equal {
        return Err(format!("DbVu64: stored-key comparison confuses {x} and {y}"));
    }
    let ou = DbU64::from(y);
    let au = DbU64::from(x);
    if au.cmp_u8(ou.as_bytes()) == std::cmp::Ordering::Equal || au.cmp_u8(au.as_bytes()) != std::cmp::Ordering::Equal {
        return Err(format!("DbU64: stored-key comparison confuses {x} and {y}"));
    }
    let oi = DbI64::from(y as i64);
    let ai = DbI64::from(x as i64);
    if ai.cmp_u8(oi.as_bytes()) == std::cmp::Ordering::Equal || ai.cmp_u8(ai.as_bytes()) != std::cmp::Ordering::Equal {
        return Err(format!("DbI64: stored-key comparison confuses {} and {}", x as i64, y as i64));
    }
    ctx.count("round_trips", 9);
    Ok(())
}

macro_rules! typed_map_check {
    ($fname:ident, $open:ident, $int:ty, $kt:ty, $label:expr) => {
        fn $fname(a: &Args, vals: &[u64], ctx: &mut Ctx, n: u64) -> Result<(), String> {
            let dir = a.scratch.join(concat!("c10_", $label));
            let _ = std::fs::remove_dir_all(&dir);
            let db = abyssiniandb::open_file(&dir).map_err(|e| e.to_string())?;
            let mut m = db.$open("ints", Cfg::small(n).params()).map_err(|e| e.to_string())?;
            let mut model: BTreeMap<$int, Vec<u8>> = BTreeMap::new();
            let g = |r: crate::session::Guard<std::io::Result<Option<Vec<u8>>>>, what: String| -> Result<Option<Vec<u8>>, String> {
                match r {
                    crate::session::Guard::Ok(Ok(v)) => Ok(v),
                    crate::session::Guard::Ok(Err(e)) => Err(format!("{what}: Err {e}")),
                    crate::session::Guard::Hang(m) | crate::session::Guard::Panic(m) => Err(format!("{what}: {m}")),
                }
            };
            for (i, &x) in vals.iter().enumerate() {
                let xi = x as $int;
                let v = format!("{xi}").into_bytes();
                // equal integers address the same entry (second put overwrites), different ones do not
                let before = g(crate::session::guarded(crate::session::STEP_BUDGET_BASE, || m.get(&xi)), format!("{} get({xi})", $label))?;
                if before != model.get(&xi).cloned() {
                    return Err(format!("{}: get({xi}) before its put returns {:?}, the integer-keyed model says {:?}: two different integers address one entry (or equal ones do not)", $label, before.map(|b| String::from_utf8_lossy(&b).to_string()), model.get(&xi).map(|b| String::from_utf8_lossy(b).to_string())));
                }
                m.put(&xi, &v).map_err(|e| format!("put: {e}"))?;
                model.insert(xi, v);
                if i % 5 == 4 {
                    let y = vals[i / 2] as $int;
                    let got = g(crate::session::guarded(crate::session::STEP_BUDGET_BASE, || m.delete(&y)), format!("{} delete({y})", $label))?;
                    if got != model.remove(&y) {
                        return Err(format!("{}: delete({y}) removed {:?}", $label, got.map(|b| String::from_utf8_lossy(&b).to_string())));
                    }
                }
                ctx.count("typed_map_calls", 2);
            }
            if m.len().map_err(|e| e.to_string())? != model.len() as u64 {
                return Err(format!("{}: len() {} but {} distinct integers are live", $label, m.len().unwrap(), model.len()));
            }
            for (x, v) in model.iter() {
                let got = g(crate::session::guarded(crate::session::STEP_BUDGET_BASE, || m.get(x)), format!("{} get({x})", $label))?;
                if got.as_ref() != Some(v) {
                    return Err(format!("{}: get({x}) = {:?}", $label, got.map(|b| String::from_utf8_lossy(&b).to_string())));
                }
            }
            // keys returned by iteration convert back to the integers that were put
            let mut seen: BTreeSet<$int> = BTreeSet::new();
            for (k, v) in m.iter() {
                let x: $int = <$int>::from(&k);
                if <$int>::from(k.clone()) != x {
                    return Err(format!("{}: iterated key converts differently by value and by reference", $label));
                }
                match model.get(&x) {
                    Some(mv) if *mv == v => {}
                    other => return Err(format!("{}: iteration yields key {x} with value {:?}; the model says {:?}", $label, String::from_utf8_lossy(&v), other.map(|b| String::from_utf8_lossy(b).to_string()))),
                }
                if !seen.insert(x) {
                    return Err(format!("{}: iteration yields {x} twice", $label));
                }
            }
            if seen.len() != model.len() {
                return Err(format!("{}: iteration yields {} integers, {} are live", $label, seen.len(), model.len()));
            }
            let mut kseen: BTreeSet<$int> = BTreeSet::new();
            for k in m.keys() {
                kseen.insert(<$int>::from(k));
            }
            if kseen != seen {
                return Err(format!("{}: keys() yields another set of integers than iter()", $label));
            }
            ctx.count("typed_map_entries_iterated", 2 * seen.len() as u64);
            drop(m);
            drop(db);
            let _ = std::fs::remove_dir_all(&dir);
            let _: Option<$kt> = None;
            Ok(())
        }
    };
}

/// typed maps big enough that records relocate: value file beyond 2 MiB, key file beyond 16 KiB, long chains.
/// Every integer still addresses its own entry and iteration still returns the integers that were put.
macro_rules! typed_big_check {
    ($fname:ident, $open:ident, $int:ty, $label:expr) => {
        fn $fname(a: &Args, ctx: &mut Ctx, rng: &mut Rng) -> Result<(), String> {
            let dir = a.scratch.join(concat!("c10big_", $label));
            let _ = std::fs::remove_dir_all(&dir);
            let db = abyssiniandb::open_file(&dir).map_err(|e| e.to_string())?;
            let mut m = db.$open("ints", Cfg::small(*rng.pick(&[1u64, 8, 64])).params()).map_err(|e| e.to_string())?;
            let mut model: BTreeMap<$int, Vec<u8>> = BTreeMap::new();
            let n = a.get_u64("big_entries", 1700) as usize;
            let mut ints: Vec<$int> = Vec::new();
            while ints.len() < n {
                let x = crate::kt::int_sample(rng) as $int;
                if !model.contains_key(&x) {
                    let v = crate::util::gen_bytes(1400 + (ints.len() % 7) * 31, ints.len() as u32, 0);
                    m.put(&x, &v).map_err(|e| format!("put: {e}"))?;
                    model.insert(x, v);
                    ints.push(x);
                }
            }
            // early entries (low offsets) get longer values: they move to the far end of the value file,
            // their key records get a wider offset field and may have to move as well
            for (j, x) in ints.iter().enumerate().take(400) {
                let v = crate::util::gen_bytes(1700 + (j % 5) * 17, 90_000 + j as u32, 0);
                m.put(x, &v).map_err(|e| format!("put: {e}"))?;
                model.insert(*x, v);
                if j % 9 == 4 {
                    let y = ints[ints.len() - 1 - j];
                    let got = m.delete(&y).map_err(|e| format!("delete: {e}"))?;
                    if got != model.remove(&y) {
                        return Err(format!("{}: delete({y}) in a large map returned a wrong value", $label));
                    }
                }
            }
            if m.len().map_err(|e| e.to_string())? != model.len() as u64 {
                return Err(format!("{}: large map: len() {} but {} distinct integers are live", $label, m.len().unwrap(), model.len()));
            }
            for (x, v) in model.iter() {
                if m.get(x).map_err(|e| e.to_string())?.as_ref() != Some(v) {
                    return Err(format!("{}: large map: get({x}) does not return the value put for it", $label));
                }
            }
            let mut seen: BTreeSet<$int> = BTreeSet::new();
            for (k, v) in m.iter() {
                let x: $int = <$int>::from(&k);
                match model.get(&x) {
                    Some(mv) if *mv == v => {}
                    _ => return Err(format!("{}: large map: iteration yields key {x} (bytes {:?}) that was never put / with a wrong value", $label, k.as_bytes())),
                }
                if !seen.insert(x) {
                    return Err(format!("{}: large map: iteration yields {x} twice", $label));
                }
            }
            if seen.len() != model.len() {
                return Err(format!("{}: large map: iteration yields {} integers, {} are live", $label, seen.len(), model.len()));
            }
            ctx.count("typed_big_maps", 1);
            ctx.count("typed_big_entries", model.len() as u64);
            ctx.max("max_typed_big_val_file", std::fs::metadata(dir.join("ints.val")).map(|x| x.len()).unwrap_or(0));
            drop(m);
            drop(db);
            let _ = std::fs::remove_dir_all(&dir);
            Ok(())
        }
    };
}
/// an empty typed map loaded by one `put_from_iter` of more than a thousand pairs in which integers repeat: every
/// integer still addresses exactly one entry (the last pair of an integer wins, as with element-wise puts)
macro_rules! typed_load_check {
    ($fname:ident, $open:ident, $int:ty, $kt:ty, $label:expr) => {
        fn $fname(a: &Args, ctx: &mut Ctx, rng: &mut Rng) -> Result<(), String> {
            let dir = a.scratch.join(concat!("c10load_", $label));
            let _ = std::fs::remove_dir_all(&dir);
            let db = abyssiniandb::open_file(&dir).map_err(|e| e.to_string())?;
            let mut m = db.$open("ints", Cfg::small(*rng.pick(&[64u64, 1024, 4096])).params()).map_err(|e| e.to_string())?;
            let mut model: BTreeMap<$int, Vec<u8>> = BTreeMap::new();
            let n = 1024 + rng.below(1500) as usize;
            let mut pool: Vec<$int> = Vec::new();
            let mut items: Vec<($kt, Vec<u8>)> = Vec::with_capacity(n);
            for j in 0..n {
                let x: $int = if !pool.is_empty() && rng.chance(1, 5) { pool[rng.below(pool.len() as u64) as usize] } else { crate::kt::int_sample(rng) as $int };
                pool.push(x);
                let mut v = format!("{x}#{j}").into_bytes();
                if j % 4 == 1 {
                    // (every fourth value is large: the map will have freed slots of the shared first-fit list when it is empty)
                    v.resize(1100 + (j % 700), b'.');
                }
                items.push((<$kt>::from(&x), v.clone()));
                model.insert(x, v);
            }
            let r = crate::session::guarded(crate::session::STEP_BUDGET_BASE, || m.put_from_iter(items.into_iter()));
            match r {
                crate::session::Guard::Ok(Ok(())) => {}
                crate::session::Guard::Ok(Err(e)) => return Err(format!("{}: put_from_iter into an empty map: Err {e}", $label)),
                crate::session::Guard::Hang(e) | crate::session::Guard::Panic(e) => return Err(format!("{}: put_from_iter into an empty map: {e}", $label)),
            }
            let l = m.len().map_err(|e| e.to_string())?;
            if l != model.len() as u64 {
                return Err(format!("{}: {} pairs with {} distinct integers loaded into an empty map by one put_from_iter: len() is {l}: an integer that occurs twice got two entries (or two integers one)", $label, n, model.len()));
            }
            for (x, v) in model.iter() {
                if m.get(x).map_err(|e| e.to_string())?.as_ref() != Some(v) {
                    return Err(format!("{}: after put_from_iter into an empty map get({x}) does not return the last value given for it", $label));
                }
            }
            let mut seen: BTreeSet<$int> = BTreeSet::new();
            for (k, _v) in m.iter() {
                let x: $int = <$int>::from(&k);
                if !seen.insert(x) {
                    return Err(format!("{}: after put_from_iter into an empty map iteration yields {x} twice", $label));
                }
            }
            // deleting every integer once empties the map
            for x in model.keys() {
                let _ = m.delete(x).map_err(|e| e.to_string())?;
            }
            let l = m.len().map_err(|e| e.to_string())?;
            if l != 0 || m.iter().next().is_some() {
                return Err(format!("{}: every integer deleted once after a put_from_iter load, yet len() is {l} / iteration still yields entries", $label));
            }
            // a batch lookup that lists integers twice returns the value at every occurrence
            {
                let sample: Vec<$int> = model.keys().take(40).cloned().collect();
                let mut batch: Vec<$int> = Vec::new();
                for (j, x) in sample.iter().enumerate() {
                    batch.push(*x);
                    if j % 3 == 0 {
                        batch.push(sample[j / 2]);
                    }
                }
                if !batch.is_empty() {
                    // (the map is empty again at this point: refill the sample first)
                    for x in sample.iter() {
                        m.put(x, format!("{x}").as_bytes()).map_err(|e| e.to_string())?;
                    }
                    let refs: Vec<&$int> = batch.iter().collect();
                    let got = m.bulk_get(&refs).map_err(|e| e.to_string())?;
                    for (x, g) in batch.iter().zip(got.iter()) {
                        if g.as_deref() != Some(format!("{x}").as_bytes()) {
                            return Err(format!("{}: bulk_get of a batch that lists integers twice returns {:?} for {x}", $label, g.as_ref().map(|b| String::from_utf8_lossy(b).to_string())));
                        }
                    }
                    for x in sample.iter() {
                        let _ = m.delete(x).map_err(|e| e.to_string())?;
                    }
                }
            }
            // the emptied map (it has held and freed slots of all sizes, large ones too) is dropped, opened again and
            // refilled with large and empty values: every integer still has its own entry
            drop(m);
            drop(db);
            let ints2: Vec<$int> = (0..120).map(|_| crate::kt::int_sample(rng) as $int).collect();
            let refill = crate::session::guarded(crate::session::STEP_BUDGET_BASE, || -> Result<(), String> {
                let rng = &mut Rng::new(ints2.len() as u64);
                let db = abyssiniandb::open_file(&dir).map_err(|e| e.to_string())?;
                let mut m = db.$open("ints", Cfg::small(8).params()).map_err(|e| e.to_string())?;
                let mut model2: BTreeMap<$int, Vec<u8>> = BTreeMap::new();
                let ints: Vec<$int> = ints2.clone();
                let _ = rng;
                for (j, x) in ints.iter().enumerate() {
                    let v = crate::util::gen_bytes([1100usize, 1400, 3000, 0, 1024][j % 5], j as u32, 0);
                    m.put(x, &v).map_err(|e| e.to_string())?;
                    model2.insert(*x, v);
                }
                for (j, x) in ints.iter().enumerate().filter(|(j, _)| j % 4 == 1) {
                    let v = if j % 8 == 1 { Vec::new() } else { crate::util::gen_bytes(2000, 7, 0) };
                    m.put(x, &v).map_err(|e| e.to_string())?;
                    model2.insert(*x, v);
                }
                for (x, v) in model2.iter() {
                    if m.get(x).map_err(|e| e.to_string())?.as_ref() != Some(v) {
                        return Err(format!("{}: a map emptied, reopened and refilled: get({x}) returns the entry of another integer / a wrong value", $label));
                    }
                }
                if m.len().map_err(|e| e.to_string())? != model2.len() as u64 {
                    return Err(format!("{}: a map emptied, reopened and refilled: len() disagrees with the number of distinct integers", $label));
                }
                drop(m);
                drop(db);
                Ok(())
            });
            match refill {
                crate::session::Guard::Ok(Ok(())) => {}
                crate::session::Guard::Ok(Err(e)) => return Err(e),
                crate::session::Guard::Hang(e) | crate::session::Guard::Panic(e) => return Err(format!("{}: a map emptied, reopened and refilled: a call died: {e}", $label)),
            }
            ctx.count("typed_bulk_loads", 1);
            let db = abyssiniandb::open_file(&dir).map_err(|e| e.to_string())?;
            let m = db.$open("ints", Cfg::small(8).params()).map_err(|e| e.to_string())?;
            drop(m);
            drop(db);
            let _ = std::fs::remove_dir_all(&dir);
            Ok(())
        }
    };
}
typed_load_check!(load_u64, db_map_u64_with_params, u64, DbU64, "DbU64");
typed_load_check!(load_i64, db_map_i64_with_params, i64, DbI64, "DbI64");
typed_load_check!(load_vu64, db_map_vu64_with_params, u64, DbVu64, "DbVu64");

typed_big_check!(big_u64, db_map_u64_with_params, u64, "DbU64");
typed_big_check!(big_i64, db_map_i64_with_params, i64, "DbI64");
typed_big_check!(big_vu64, db_map_vu64_with_params, u64, "DbVu64");

typed_map_check!(check_u64, db_map_u64_with_params, u64, DbU64, "DbU64");
typed_map_check!(check_i64, db_map_i64_with_params, i64, DbI64, "DbI64");
typed_map_check!(check_vu64, db_map_vu64_with_params, u64, DbVu64, "DbVu64");

fn byte_keys_check(a: &Args, ctx: &mut Ctx, rng: &mut Rng) -> Result<(), String> {
    // prefix chains, embedded NULs, invalid UTF-8
    let mut pool: Vec<Vec<u8>> = vec![b"".to_vec(), b"a".to_vec(), b"ab".to_vec(), b"abc".to_vec(), b"a\0".to_vec(), b"a\0\0".to_vec(), b"\0".to_vec(), b"\0\0".to_vec(), vec![0xFF], vec![0xFF, 0xFE], vec![0xC3], vec![0xC3, 0x28], b"abcdefgh".to_vec(), b"abcdefgh\0".to_vec(), b"abcdefghi".to_vec(), vec![0u8; 8], vec![0u8; 9], vec![0u8; 16]];
    for _ in 0..40 {
        let l = rng.range(1, 20) as usize;
        let base: Vec<u8> = (0..l).map(|_| *rng.pick(&[0u8, b'a', 0xFF, 0x80, b'b'])).collect();
        for cut in 0..=l {
            pool.push(base[..cut].to_vec());
        }
    }
    // distinct keys with the same full 64-bit placement hash: the same entry only if the bytes are equal
    let fam = crate::decoder::colliding_keys(rng, 4);
    if fam.len() >= 2 && fam.iter().all(|k| crate::decoder::place_hash(k) == crate::decoder::place_hash(&fam[0])) {
        ctx.count("hash_collision_families", 1);
        ctx.count("hash_colliding_keys", fam.len() as u64);
    }
    pool.extend(fam);
    pool.sort();
    pool.dedup();
    for n in [1u64, 8, 1024] {
        let dir = a.scratch.join("c10_bytes");
        let _ = std::fs::remove_dir_all(&dir);
        let db = abyssiniandb::open_file(&dir).map_err(|e| e.to_string())?;
        let mut mb = db.db_map_bytes_with_params("b", Cfg::small(n).params()).map_err(|e| e.to_string())?;
        let mut ms = db.db_map_string_with_params("s", Cfg::small(n).params()).map_err(|e| e.to_string())?;
        for (i, k) in pool.iter().enumerate() {
            let v = format!("v{i}").into_bytes();
            mb.put(&k[..], &v).map_err(|e| e.to_string())?;
            ms.put(&k[..], &v).map_err(|e| e.to_string())?;
        }
        for (nm, len) in [("DbBytes", mb.len().unwrap()), ("DbString", ms.len().unwrap())] {
            if len != pool.len() as u64 {
                return Err(format!("{nm} map (table {n}): {} distinct byte keys put, len() = {len}: keys with equal/unequal bytes are confused", pool.len()));
            }
        }
        for (i, k) in pool.iter().enumerate() {
            let v = format!("v{i}").into_bytes();
            let g1 = mb.get(&k[..]).map_err(|e| e.to_string())?;
            let g2 = ms.get(&k[..]).map_err(|e| e.to_string())?;
            if g1.as_ref() != Some(&v) || g2.as_ref() != Some(&v) {
                return Err(format!("table {n}: key {} reads {:?} (bytes map) / {:?} (string map), expected {:?}", crate::util::show_bytes(k), g1, g2, String::from_utf8_lossy(&v)));
            }
        }
        // delete every third key, the others must be unaffected
        for (i, k) in pool.iter().enumerate() {
            if i % 3 == 0 {
                mb.delete(&k[..]).map_err(|e| e.to_string())?;
                ms.delete(&k[..]).map_err(|e| e.to_string())?;
            }
        }
        for (i, k) in pool.iter().enumerate() {
            let want = if i % 3 == 0 { None } else { Some(format!("v{i}").into_bytes()) };
            if mb.get(&k[..]).map_err(|e| e.to_string())? != want || ms.get(&k[..]).map_err(|e| e.to_string())? != want {
                return Err(format!("table {n}: after deleting other keys, key {} reads differently than expected {:?}", crate::util::show_bytes(k), want));
            }
        }
        // iterated keys are the byte strings that were put
        let got: BTreeSet<Vec<u8>> = mb.keys().map(|k| k.as_bytes().to_vec()).collect();
        let want: BTreeSet<Vec<u8>> = pool.iter().enumerate().filter(|(i, _)| i % 3 != 0).map(|(_, k)| k.clone()).collect();
        if got != want {
            return Err(format!("table {n}: keys() of the bytes map returns another set of byte strings than was put"));
        }
        let got: BTreeSet<Vec<u8>> = ms.keys().map(|k| k.as_bytes().to_vec()).collect();
        if got != want {
            return Err(format!("table {n}: keys() of the string map returns another set of byte strings than was put"));
        }
        ctx.count("byte_key_pools", 1);
        ctx.count("byte_keys", pool.len() as u64);
        // str / String / array conversions agree with the byte conversion
        let s = "héllo";
        if DbString::from(s) != DbString::from(s.as_bytes()) || DbString::from(s.to_string()) != DbString::from(s) || DbString::from(&s.to_string()) != DbString::from(s) || DbBytes::from(s) != DbBytes::from(s.as_bytes()) || DbBytes::from(b"abc") != DbBytes::from(&b"abc"[..]) {
            return Err("string/bytes key conversions disagree with each other".into());
        }
        drop(mb);
        drop(ms);
        drop(db);
        let _ = std::fs::remove_dir_all(&dir);
    }
    Ok(())
}

pub fn run(a: &Args) -> Ctx {
    let mut ctx = Ctx::new("C10", &["C10"], &a.replay_dir, &a.shard_name());
    let mut rng = Rng::new(a.shard_seed() ^ 0xC10);
    let n_random = a.get_u64("random", 6000) as usize;
    let mut lens_seen = BTreeSet::new();
    let bv = boundary_values();
    let mut vals: Vec<u64> = Vec::new();
    if a.shard == 0 {
        vals.extend(bv.iter().copied());
        ctx.count("values.boundary", bv.len() as u64);
        ctx.count("values.single_bit", 64);
    }
    for _ in 0..n_random {
        vals.push(crate::kt::int_sample(&mut rng));
    }
    ctx.count("values.random", n_random as u64);
    for &x in vals.iter() {
        ctx.evaluations += 1;
        if let Err(m) = laws(x, &mut ctx, &mut lens_seen) {
            fail(&mut ctx, m);
            return ctx;
        }
    }
    ctx.count("vu64_encoded_lengths_seen", lens_seen.len() as u64);
    // typed maps: a subset (maps are slower than pure conversions)
    let mut sub: Vec<u64> = if a.shard == 0 { bv.clone() } else { vec![] };
    sub.extend(vals.iter().rev().take(a.get_u64("map_values", 1500) as usize));
    let mut d: BTreeSet<u64> = BTreeSet::new();
    sub.retain(|x| d.insert(*x));
    for n in [*rng.pick(&[1u64, 8]), *rng.pick(&[64u64, 1024, 65536])] {
        for (nm, r) in [("u64", check_u64(a, &sub, &mut ctx, n)), ("i64", check_i64(a, &sub, &mut ctx, n)), ("vu64", check_vu64(a, &sub, &mut ctx, n))] {
            ctx.count(&format!("typed_maps.{nm}"), 1);
            if let Err(m) = r {
                fail(&mut ctx, format!("[table {n}] {m}"));
                return ctx;
            }
        }
    }
    for (nm, r) in [("u64", big_u64(a, &mut ctx, &mut rng)), ("i64", big_i64(a, &mut ctx, &mut rng)), ("vu64", big_vu64(a, &mut ctx, &mut rng))] {
        if let Err(m) = r {
            fail(&mut ctx, format!("[{nm}] {m}"));
            return ctx;
        }
    }
    for (nm, r) in [("u64", load_u64(a, &mut ctx, &mut rng)), ("i64", load_i64(a, &mut ctx, &mut rng)), ("vu64", load_vu64(a, &mut ctx, &mut rng))] {
        if let Err(m) = r {
            fail(&mut ctx, format!("[{nm}] {m}"));
            return ctx;
        }
    }
    // one chain of several thousand sequential integers (1-bucket table): every one of them is still found
    if a.shard < 3 {
        let r = (|| -> Result<(), String> {
            let dir = a.scratch.join("c10chain");
            let _ = std::fs::remove_dir_all(&dir);
            let db = abyssiniandb::open_file(&dir).map_err(|e| e.to_string())?;
            let n = a.get_u64("chain_entries", 5200);
            macro_rules! chain {
                ($m:expr, $conv:expr) => {{
                    let mut m = $m;
                    for x in 0..n {
                        m.put(&$conv(x), &x.to_le_bytes()[..(x % 5) as usize]).map_err(|e| e.to_string())?;
                    }
                    if m.len().map_err(|e| e.to_string())? != n {
                        return Err(format!("a chain of {n} sequential integers: len() is {}", m.len().unwrap()));
                    }
                    for x in (0..n).step_by(7).chain([0, 1, 2, n - 1]) {
                        let want = x.to_le_bytes()[..(x % 5) as usize].to_vec();
                        if m.get(&$conv(x)).map_err(|e| e.to_string())? != Some(want) {
                            return Err(format!("a chain of {n} sequential integers in one bucket: get({x}) does not find the entry"));
                        }
                    }
                    if m.iter().count() as u64 != n {
                        return Err(format!("a chain of {n} sequential integers: iteration yields another number of items"));
                    }
                }};
            }
            match a.shard {
                0 => chain!(db.db_map_u64_with_params("c", Cfg::small(1).params()).map_err(|e| e.to_string())?, |x: u64| x),
                1 => chain!(db.db_map_i64_with_params("c", Cfg::small(1).params()).map_err(|e| e.to_string())?, |x: u64| x as i64 - 2600),
                _ => chain!(db.db_map_vu64_with_params("c", Cfg::small(1).params()).map_err(|e| e.to_string())?, |x: u64| x * 31),
            }
            drop(db);
            let _ = std::fs::remove_dir_all(&dir);
            Ok(())
        })();
        ctx.count("typed_long_chains", 1);
        if let Err(m) = r {
            fail(&mut ctx, m);
            return ctx;
        }
    }
    ctx.drain_notes();
    if let Err(m) = byte_keys_check(a, &mut ctx, &mut rng) {
        fail(&mut ctx, m);
        return ctx;
    }
    for x in sub.iter() {
        ctx.digests.insert(*x);
        if x.count_ones() <= 2 || (!x).count_ones() <= 2 || (x.wrapping_add(2)).count_ones() <= 2 {
            ctx.nontrivial.insert(*x);
        }
    }
    let mut s = J::obj();
    s.set("kind", J::s("integers checked (first 12 of this shard)"));
    s.set("values", J::Arr(vals.iter().take(12).map(|x| J::s(format!("{x:#x}"))).collect()));
    ctx.samples.push(s);
    ctx
}
