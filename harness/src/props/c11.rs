//! C11: named maps are isolated; handles to the same map alias one state.
use super::*;
use crate::session::{guarded, Guard, Model};
use abyssiniandb::filedb::{FileDb, FileDbMap};
use abyssiniandb::{DbMap, DbXxx, DbXxxBase};

pub trait DynMap {
    fn put(&mut self, k: &[u8], v: &[u8]) -> std::io::Result<()>;
    fn get(&mut self, k: &[u8]) -> std::io::Result<Option<Vec<u8>>>;
    fn del(&mut self, k: &[u8]) -> std::io::Result<Option<Vec<u8>>>;
    fn has(&mut self, k: &[u8]) -> std::io::Result<bool>;
    fn len(&self) -> std::io::Result<u64>;
    fn flush(&mut self) -> std::io::Result<()>;
    fn all(&self) -> Vec<(Vec<u8>, Vec<u8>)>;
    fn clone_box(&self) -> Box<dyn DynMap>;
}

impl<K: Kt> DynMap for FileDbMap<K> {
    fn put(&mut self, k: &[u8], v: &[u8]) -> std::io::Result<()> {
        DbXxx::put(self, k, v)
    }
    fn get(&mut self, k: &[u8]) -> std::io::Result<Option<Vec<u8>>> {
        DbXxx::get(self, k)
    }
    fn del(&mut self, k: &[u8]) -> std::io::Result<Option<Vec<u8>>> {
        DbXxx::delete(self, k)
    }
    fn has(&mut self, k: &[u8]) -> std::io::Result<bool> {
        DbXxx::includes_key(self, k)
    }
    fn len(&self) -> std::io::Result<u64> {
        DbXxxBase::len(self)
    }
    fn flush(&mut self) -> std::io::Result<()> {
        DbXxxBase::flush(self)
    }
    fn all(&self) -> Vec<(Vec<u8>, Vec<u8>)> {
        self.iter().map(|(k, v)| (k.as_bytes().to_vec(), v)).collect()
    }
    fn clone_box(&self) -> Box<dyn DynMap> {
        Box::new(self.clone())
    }
}

pub fn open_dyn(db: &FileDb, kt: &str, name: &str, cfg: &Cfg) -> std::io::Result<Box<dyn DynMap>> {
    fn o<K: Kt>(db: &FileDb, name: &str, cfg: &Cfg) -> std::io::Result<Box<dyn DynMap>> {
        Ok(Box::new(K::open(db, name, cfg.params())?))
    }
    with_kt!(kt, o(db, name, cfg))
}

pub fn make_keys(kt: &str, rng: &mut Rng, n: usize) -> Vec<Vec<u8>> {
    fn mk<K: Kt>(rng: &mut Rng, n: usize) -> Vec<Vec<u8>> {
        let mut v: Vec<Vec<u8>> = Vec::new();
        let mut tries = 0;
        while v.len() < n && tries < n * 30 {
            tries += 1;
            let l = *rng.pick(&[0usize, 1, 3, 9, 10, 11, 12, 19, 40, 200]);
            let k = K::make_key(rng, l);
            if !v.contains(&k) {
                v.push(k);
            }
        }
        v
    }
    with_kt!(kt, mk(rng, n))
}

struct M {
    name: String,
    kt: &'static str,
    cfg: Cfg,
    keys: Vec<Vec<u8>>,
    model: Model,
    handles: Vec<(Box<dyn DynMap>, &'static str)>,
}

fn raw_files(dir: &Path, name: &str) -> Option<Image> {
    Image::read(dir, name).ok()
}

fn call<T>(f: impl FnOnce() -> std::io::Result<T>, what: &str) -> Result<T, String> {
    match guarded(crate::session::STEP_BUDGET_BASE, f) {
        Guard::Ok(Ok(v)) => Ok(v),
        Guard::Ok(Err(e)) => Err(format!("FOREIGN {what}: Err({e})")),
        Guard::Hang(m) | Guard::Panic(m) => Err(format!("FOREIGN {what}: {m}")),
    }
}

fn one_run(a: &Args, rng: &mut Rng, ctx: &mut Ctx, n_ops: usize) -> Result<(), String> {
    let dir = a.scratch.join("c11");
    let _ = std::fs::remove_dir_all(&dir);
    let db = abyssiniandb::open_file(&dir).map_err(|e| e.to_string())?;
    // (names with a path separator live in a sub-directory, which exists; "sub/m" and "sub_m" are different maps)
    let _ = std::fs::create_dir_all(dir.join("sub"));
    let names = ["m", "m1", "m.key", "mm", "M", "m.val", "1m", "sub/m", "sub_m", "tmp", "m.key.2"];
    let nmaps = rng.range(2, 5) as usize;
    let mut order: Vec<usize> = (0..names.len()).collect();
    for i in (1..order.len()).rev() {
        order.swap(i, rng.below(i as u64 + 1) as usize);
    }
    let paired = rng.chance(1, 3);
    if paired {
        let a = order.iter().position(|&x| names[x] == "sub/m").unwrap();
        order.swap(0, a);
        let b = order.iter().position(|&x| names[x] == "sub_m").unwrap();
        order.swap(1, b);
    }
    let mut maps: Vec<M> = Vec::new();
    for j in 0..nmaps {
        // (the pair sub/m, sub_m gets one key type: same-typed maps whose names are close are the hard case)
        let kt = if paired && j == 1 { maps[0].kt } else { KT_NAMES[rng.below(5) as usize] };
        let cfg = Cfg { buckets: Buckets::Size(*rng.pick(&[1u64, 8, 64, 1024])), key: Buf::PerMille(1000), val: Buf::Auto, htx: Buf::PerMille(1000) };
        let name = names[order[j]].to_string();
        let h = open_dyn(&db, kt, &name, &cfg).map_err(|e| format!("open {name}: {e}"))?;
        let keys = make_keys(kt, rng, 25);
        maps.push(M { name, kt, cfg, keys, model: Model::new(), handles: vec![(h, "original")] });
        ctx.count(&format!("maps.kt.{kt}"), 1);
    }
    ctx.count(&format!("maps_per_run.{nmaps}"), 1);
    let db2 = db.clone();
    let mut switch_hash = 0u64;
    let mut m_created = false;
    let mut done = 0usize;
    let mut violation: Option<String> = None;
    while done < n_ops && violation.is_none() {
        // a burst on map A bracketed by raw reads of all other maps' files
        let ai = rng.below(maps.len() as u64) as usize;
        switch_hash = crate::util::digest64(switch_hash, &[ai as u8]);
        let others: Vec<(usize, Option<Image>)> = (0..maps.len()).filter(|&j| j != ai).map(|j| (j, raw_files(&dir, &maps[j].name))).collect();
        let burst = rng.range(1, 40) as usize;
        for _ in 0..burst {
            done += 1;
            let m = &mut maps[ai];
            // acquire handles in all the ways the API offers
            if rng.chance(1, 6) && m.handles.len() < 6 {
                let which = rng.below(3);
                let kind: &'static str = ["clone", "second_lookup", "lookup_via_db_clone"][which as usize];
                let looked = guarded(crate::session::STEP_BUDGET_BASE, || match which {
                    0 => Ok(m.handles[0].0.clone_box()),
                    1 => open_dyn(&db, m.kt, &m.name, &Cfg::small(4)),
                    _ => open_dyn(&db2, m.kt, &m.name, &m.cfg),
                });
                let h = match looked {
                    Guard::Ok(Ok(h)) => h,
                    Guard::Ok(Err(e)) => {
                        violation = Some(format!("map {}: obtaining another handle ({kind}) for the open map failed: {e}", m.name));
                        break;
                    }
                    Guard::Hang(e) | Guard::Panic(e) => {
                        violation = Some(format!("map {}: obtaining another handle ({kind}) for the open map panicked instead of aliasing the open state: {e}", m.name));
                        break;
                    }
                };
                ctx.count(&format!("handles.{kind}"), 1);
                m.handles.push((h, kind));
            }
            if rng.chance(1, 25) && m.handles.len() > 1 {
                let i = rng.range(1, m.handles.len() as u64 - 1) as usize;
                m.handles.remove(i);
            }
            // now and then the process runs out of file descriptors while one more map is being created: the attempt
            // may fail, but the open maps and their handles must stay what they are
            if rng.chance(1, 150) {
                let (cur, _max) = crate::sys::get_nofile_limit();
                let lim = crate::sys::highest_fd() + 1 + rng.below(3);
                if crate::sys::set_nofile_soft(lim) {
                    let extra_kt = m.kt;
                    // (the map that fails to be created is "m" when that name is free: other maps' names start with "m.")
                    let extra_name = if !maps.iter().any(|x| x.name == "m") && !m_created { "m".to_string() } else { format!("zz_extra{done}") };
                    let r = guarded(crate::session::STEP_BUDGET_BASE, || open_dyn(&db, extra_kt, &extra_name, &Cfg::small(8)));
                    crate::sys::set_nofile_soft(cur);
                    match r {
                        Guard::Ok(Ok(h)) => {
                            drop(h);
                            if extra_name == "m" {
                                m_created = true;
                            }
                            ctx.count("fd_exhaustion.create_succeeded", 1);
                        }
                        Guard::Ok(Err(_)) => ctx.count("fd_exhaustion.create_failed", 1),
                        Guard::Hang(_) | Guard::Panic(_) => ctx.count("fd_exhaustion.create_panicked", 1),
                    }
                    // every map is looked up by name again: the registry must still hand out the open state
                    for mm in maps.iter_mut() {
                        if let Guard::Ok(Ok(h)) = guarded(crate::session::STEP_BUDGET_BASE, || open_dyn(&db, mm.kt, &mm.name, &Cfg::small(4))) {
                            if mm.handles.len() < 6 {
                                mm.handles.push((h, "lookup_after_fd_exhaustion"));
                            }
                        }
                    }
                }
                continue;
            }
            let hi = rng.below(m.handles.len() as u64) as usize;
            let oi = rng.below(m.handles.len() as u64) as usize;
            let k = m.keys[rng.below(m.keys.len() as u64) as usize].clone();
            let name = m.name.clone();
            let r: Result<(), String> = (|| {
                let nh = m.handles.len();
                let pick = if nh >= 2 { rng.below(12) } else { rng.below(10) };
                // a second handle different from the first one (directed scenarios)
                let o2 = if nh >= 2 { (hi + 1 + rng.below(nh as u64 - 1) as usize) % nh } else { hi };
                match pick {
                    10 => {
                        // a lookup through A, a delete through B, the same lookup through A again: whatever A remembers
                        // from its own lookup must not survive B's delete (the empty key is preferred: a freed key
                        // record reads back as an empty key)
                        let k = if rng.chance(1, 2) && m.keys.iter().any(|x| x.is_empty()) { Vec::new() } else { k.clone() };
                        if !m.model.contains_key(&k) {
                            let v = crate::util::gen_bytes(*rng.pick(&[0usize, 5, 15, 1100]), 7, 0);
                            call(|| m.handles[o2].0.put(&k, &v), "put")?;
                            m.model.insert(k.clone(), v);
                        }
                        let by_has = rng.chance(1, 2);
                        if by_has {
                            if !call(|| m.handles[hi].0.has(&k), "includes_key")? {
                                return Err(format!("map {name}: includes_key({}) through handle #{hi} is false for a stored key", crate::util::show_bytes(&k)));
                            }
                        } else if call(|| m.handles[hi].0.get(&k), "get")? != m.model.get(&k).cloned() {
                            return Err(format!("map {name}: get({}) through handle #{hi} differs from its own model", crate::util::show_bytes(&k)));
                        }
                        let got = call(|| m.handles[o2].0.del(&k), "delete")?;
                        if got != m.model.remove(&k) {
                            return Err(format!("map {name}: delete through handle #{o2} returned something else than its own model holds"));
                        }
                        // through the deleting handle first: a failure there is not an aliasing matter
                        if call(|| m.handles[o2].0.has(&k), "includes_key")? || call(|| m.handles[o2].0.get(&k), "get")?.is_some() {
                            return Err(format!("FOREIGN map {name}: key still present through the deleting handle"));
                        }
                        let via_a = guarded(crate::session::STEP_BUDGET_BASE, || {
                            let h = m.handles[hi].0.has(&k)?;
                            let g = m.handles[hi].0.get(&k)?;
                            Ok::<_, std::io::Error>((h, g))
                        });
                        match via_a {
                            Guard::Ok(Ok((false, None))) => {}
                            Guard::Ok(Ok((h, g))) => {
                                return Err(format!("map {name}: key {} was looked up through handle #{hi} ({}), deleted through handle #{o2} ({}), and handle #{hi} still answers includes_key={h} get={:?}", crate::util::show_bytes(&k), m.handles[hi].1, m.handles[o2].1, g.map(|g| crate::util::show_bytes(&g))));
                            }
                            Guard::Ok(Err(e)) => return Err(format!("map {name}: after a delete through handle #{o2} the lookup of the deleted key through handle #{hi} fails ({e}) while the same lookup through #{o2} answers 'absent'")),
                            Guard::Hang(e) | Guard::Panic(e) => return Err(format!("map {name}: after a delete through handle #{o2} the lookup of the deleted key through handle #{hi} dies ({e}) while the same lookup through #{o2} answers 'absent'")),
                        }
                        ctx.count("directed.lookup_delete_lookup", 1);
                    }
                    11 => {
                        // A stores (k,V); B overwrites or deletes k; A stores exactly (k,V) again: it must be stored again
                        let v = crate::util::gen_bytes(*rng.pick(&[1100usize, 5000, 1024, 300, 15]), 3, 0);
                        let w = crate::util::gen_bytes(*rng.pick(&[1100usize, 20, 5000]), 4, 0);
                        call(|| m.handles[hi].0.put(&k, &v), "put")?;
                        if rng.chance(1, 2) {
                            call(|| m.handles[o2].0.put(&k, &w), "put")?;
                        } else {
                            call(|| m.handles[o2].0.del(&k), "delete")?;
                        }
                        call(|| m.handles[hi].0.put(&k, &v), "put")?;
                        m.model.insert(k.clone(), v.clone());
                        for h in [o2, hi] {
                            let got = call(|| m.handles[h].0.get(&k), "get")?;
                            if got.as_ref() != Some(&v) {
                                return Err(format!("map {name}: handle #{hi} stored a value of {} bytes, handle #{o2} changed the key, handle #{hi} stored the same value again; get through handle #{h} now returns {:?}", v.len(), got.map(|g| crate::util::show_bytes(&g))));
                            }
                        }
                        let l1 = call(|| m.handles[hi].0.len(), "len")?;
                        if l1 != m.model.len() as u64 {
                            return Err(format!("map {name}: len() is {l1} after a store/change/store-again sequence over two handles; its own model holds {}", m.model.len()));
                        }
                        ctx.count("directed.store_change_store", 1);
                    }
                    0..=4 => {
                        let v = crate::util::gen_bytes(*rng.pick(&[0usize, 5, 14, 15, 100, 1100, 5000]), rng.next() as u32, 0);
                        call(|| m.handles[hi].0.put(&k, &v), "put")?;
                        m.model.insert(k.clone(), v.clone());
                        // the other handle observes the update immediately
                        let got = call(|| m.handles[oi].0.get(&k), "get")?;
                        if got.as_ref() != Some(&v) {
                            return Err(format!("map {name}: put through handle #{hi} ({}) is not observed by handle #{oi} ({}): get returns {:?}", m.handles[hi].1, m.handles[oi].1, got.map(|g| crate::util::show_bytes(&g))));
                        }
                    }
                    5 | 6 => {
                        let got = call(|| m.handles[hi].0.del(&k), "delete")?;
                        let want = m.model.remove(&k);
                        if got != want {
                            return Err(format!("map {name}: delete through handle #{hi} ({}) returned {:?}, its own model says {:?}", m.handles[hi].1, got.map(|g| crate::util::show_bytes(&g)), want.map(|g| crate::util::show_bytes(&g))));
                        }
                        let got = call(|| m.handles[oi].0.get(&k), "get")?;
                        if got.is_some() {
                            return Err(format!("map {name}: delete through handle #{hi} ({}) is not observed by handle #{oi} ({})", m.handles[hi].1, m.handles[oi].1));
                        }
                    }
                    7 | 8 => {
                        let got = call(|| m.handles[hi].0.get(&k), "get")?;
                        if got != m.model.get(&k).cloned() {
                            return Err(format!("map {name}: get({}) through handle #{hi} ({}) returned {:?}, its own model says {:?}", crate::util::show_bytes(&k), m.handles[hi].1, got.map(|g| crate::util::show_bytes(&g)), m.model.get(&k).map(|g| crate::util::show_bytes(g))));
                        }
                    }
                    _ => {
                        let l1 = call(|| m.handles[hi].0.len(), "len")?;
                        let l2 = call(|| m.handles[oi].0.len(), "len")?;
                        if l1 != m.model.len() as u64 || l2 != l1 {
                            return Err(format!("map {name}: len() is {l1} through handle #{hi} and {l2} through handle #{oi}; its own model holds {}", m.model.len()));
                        }
                    }
                }
                ctx.count("calls_executed", 1);
                Ok(())
            })();
            if let Err(e) = r {
                violation = Some(e);
                break;
            }
        }
        if violation.is_some() {
            break;
        }
        // map A flushes its own files: the others' files must stay byte-for-byte what they were
        if rng.chance(1, 2) {
            call(|| maps[ai].handles[0].0.flush(), "flush").map_err(|e| e.to_string())?;
        }
        for (j, before) in others {
            let after = raw_files(&dir, &maps[j].name);
            ctx.count("cross_map_file_comparisons", 1);
            match (before, after) {
                (Some(b), Some(x)) => {
                    if let Some(d) = b.diff(&x) {
                        violation = Some(format!("files of map '{}' changed while only map '{}' was operated on: {d}", maps[j].name, maps[ai].name));
                        break;
                    }
                    ctx.count("cross_map_bytes_compared", x.total_len());
                }
                (b, x) => {
                    violation = Some(format!("files of map '{}' appeared/disappeared during operations on '{}': {} -> {}", maps[j].name, maps[ai].name, b.is_some(), x.is_some()));
                    break;
                }
            }
        }
        // all maps agree with their own models (contents and iteration)
        if violation.is_none() && rng.chance(1, 5) {
            for m in maps.iter_mut() {
                let hi = rng.below(m.handles.len() as u64) as usize;
                let mut all = m.handles[hi].0.all();
                all.sort();
                let want: Vec<(Vec<u8>, Vec<u8>)> = m.model.iter().map(|(k, v)| (k.clone(), v.clone())).collect();
                if all != want {
                    violation = Some(format!("map '{}': iteration through handle #{hi} ({}) yields {} entries that differ from its own model ({} entries)", m.name, m.handles[hi].1, all.len(), want.len()));
                    break;
                }
                ctx.count("full_map_comparisons", 1);
            }
            if rng.chance(1, 3) {
                call(|| if rng.chance(1, 2) { db.sync_all() } else { db2.sync_data() }, "db sync").map_err(|e| e.to_string())?;
                ctx.count("db_level_syncs", 1);
            }
        }
    }
    ctx.digests.insert(switch_hash);
    ctx.nontrivial.insert(switch_hash);
    if ctx.samples.len() < 2 {
        let mut s = J::obj();
        s.set("maps", J::Arr(maps.iter().map(|m| J::s(format!("{}:{}:{}", m.name, m.kt, m.cfg.text()))).collect()));
        s.set("ops", J::u(done as u64));
        s.set("switch_sequence_hash", J::s(format!("{switch_hash:016x}")));
        ctx.samples.push(s);
    }
    drop(maps);
    drop(db);
    drop(db2);
    let _ = std::fs::remove_dir_all(&dir);
    match violation {
        Some(v) => Err(v),
        None => Ok(()),
    }
}

pub fn run(a: &Args) -> Ctx {
    let mut ctx = Ctx::new("C11", &["C11"], &a.replay_dir, &a.shard_name());
    let mut rng = Rng::new(a.shard_seed() ^ 0xC11);
    let runs = a.get_u64("runs", 4);
    let n_ops = a.get_u64("ops", 3000) as usize;
    for _ in 0..runs {
        ctx.evaluations += 1;
        if let Err(m) = one_run(a, &mut rng, &mut ctx, n_ops) {
            // a failing/panicking call as such belongs to C01, not to isolation
            let owners: &'static [&'static str] = if m.starts_with("FOREIGN") { &["C01"] } else { &["C11"] };
            let st = ctx.classify(finding(owners, "isolation", 0, m));
            ctx.record_stop(st, None);
            break;
        }
    }
    ctx.drain_notes();
    ctx
}
