//! C12: files written by the pinned release stay readable; format and placement are stable.
use super::*;
use crate::session::{run_ops, Model};
use crate::util::unhex;

const GOLDEN_DIR: &str = "/verif/golden/images";

pub fn generate(_a: &Args) -> i32 {
    eprintln!("golden images are generated from the pinned commit by /verif/golden/regen.sh");
    2
}

/// a byte string in expected.txt: hex, or z<count>+<hex> = <count> zero bytes followed by the hex bytes
fn unspec(s: &str) -> Option<Vec<u8>> {
    if let Some(rest) = s.strip_prefix('z') {
        let (n, hx) = rest.split_once('+')?;
        let mut v = vec![0u8; n.parse().ok()?];
        v.extend_from_slice(&unhex(hx)?);
        Some(v)
    } else {
        unhex(s)
    }
}

fn load_expected(p: &Path) -> Option<(Model, Vec<Vec<u8>>, String)> {
    let t = std::fs::read_to_string(p).ok()?;
    let mut m = Model::new();
    let mut absent = Vec::new();
    let mut name = "m".to_string();
    for l in t.lines() {
        let p: Vec<&str> = l.split(' ').collect();
        match p[0] {
            "name" => name = p.get(1).unwrap_or(&"m").to_string(),
            "kv" => {
                m.insert(unspec(p.get(1)?)?, unspec(p.get(2).unwrap_or(&""))?);
            }
            "absent" => absent.push(unspec(p.get(1).unwrap_or(&""))?),
            _ => {}
        }
    }
    Some((m, absent, name))
}

/// copy a golden image into a scratch directory (re-inflating the sparse default table)
fn restore(golden: &Path, to: &Path, name: &str) -> std::io::Result<()> {
    let _ = std::fs::remove_dir_all(to);
    std::fs::create_dir_all(to)?;
    for f in [format!("{name}.key"), format!("{name}.val"), format!("{name}.htx")] {
        if golden.join(&f).exists() {
            std::fs::copy(golden.join(&f), to.join(&f))?;
        }
    }
    // files kept in sparse form (only the blocks that are not all zeros): the default table, the wide-regime image
    for ext in ["key", "val", "htx"] {
        let sp = golden.join(format!("{name}.{ext}.sparse"));
        if !sp.exists() {
            continue;
        }
        use std::io::{Seek, SeekFrom, Write};
        let t = std::fs::read_to_string(sp)?;
        let mut f = std::fs::File::create(to.join(format!("{name}.{ext}")))?;
        for l in t.lines() {
            let p: Vec<&str> = l.split(' ').collect();
            match p[0] {
                "len" => f.set_len(p[1].parse().unwrap_or(0))?,
                "page" | "blk" => {
                    f.seek(SeekFrom::Start(p[1].parse().unwrap_or(0)))?;
                    f.write_all(&unhex(p[2]).unwrap_or_default())?;
                }
                _ => {}
            }
        }
    }
    Ok(())
}

fn golden_case<K: Kt>(a: &Args, gdir: &Path, ctx: &mut Ctx, rng: &mut Rng, ed: &Edges) -> Option<(Stop, Option<History>)> {
    let name = gdir.file_name().unwrap().to_string_lossy().to_string();
    let Some((expected, absent, map_name)) = load_expected(&gdir.join("expected.txt")) else {
        return Some((Stop::Harness(format!("cannot load expected contents of {name}")), None));
    };
    let map_name = map_name.as_str();
    let dir = a.scratch.join("c12");
    if let Err(e) = restore(gdir, &dir, map_name) {
        return Some((Stop::Harness(format!("cannot restore {name}: {e}")), None));
    }
    let viol = |ctx: &Ctx, msg: String| -> Stop { ctx.classify(finding(&["C12"], "golden", 0, format!("golden image {name}: {msg}"))) };
    // (1) the independent decoder reads the released format: placement from key bytes and table size only
    let img = match Image::read(&dir, map_name) {
        Ok(i) => i,
        Err(e) => return Some((Stop::Harness(e.to_string()), None)),
    };
    let dec = decoder::decode(&img, Some(K::SIG));
    if let Some(p) = dec.problems.first() {
        return Some((Stop::Harness(format!("golden image {name} does not decode any more ({:?}: {}): the golden files or the decoder are damaged", p.group, p.what)), None));
    }
    ctx.count("golden.decoded", 1);
    ctx.count("golden.entries", expected.len() as u64);
    // (2) the current build opens it with identical contents
    let mut keys: Vec<Vec<u8>> = expected.keys().cloned().collect();
    keys.extend(absent.iter().cloned());
    let mut s = Session::<K>::attach(&dir, map_name, expected.clone(), expected.len() + dec.keyf.slots.len());
    // creation parameters differ from what the image was made with: must be ignored
    let cfg = Cfg { buckets: Buckets::Size(*rng.pick(&[1u64, 16, 1024])), key: Cfg::random_buf(rng), val: Cfg::random_buf(rng), htx: Cfg::random_buf(rng) };
    if let Err(e) = s.open(&cfg) {
        return Some((viol(ctx, format!("does not open under the current build: {e}")), None));
    }
    if s.n_buckets != dec.n {
        return Some((viol(ctx, format!("table size read as {} but the file says {}", s.n_buckets, dec.n)), None));
    }
    if let Err(f) = s.full_compare(0, &keys, &["C12"], "in a golden image of the pinned release", ctx) {
        return Some((viol(ctx, f.msg), None));
    }
    for fl in 0..crate::ops::ITER_FLAVOURS.len() {
        if dec.n > 1 << 20 && fl > 0 {
            break;
        }
        if let Err(f) = s.iterate(0, fl, usize::MAX, fl % 2 == 1, ctx) {
            return Some((viol(ctx, f.msg), None));
        }
    }
    ctx.count("golden.opened", 1);
    // read-only so far: closing must leave the released files byte-for-byte unchanged
    s.close();
    if let Ok(after) = Image::read(&dir, map_name) {
        if let Some(d) = img.diff(&after) {
            return Some((viol(ctx, format!("opening and reading it rewrote the files: {d}")), None));
        }
    }
    if let Err(e) = s.open(&cfg) {
        return Some((viol(ctx, format!("does not reopen: {e}")), None));
    }
    // (3) all other guarantees keep holding while it is updated further
    let mut p = Profile::base(30, a.get_u64("followup_ops", 600) as usize);
    p.w_sync = 25;
    p.w_iter = if dec.n > 1 << 20 { 0 } else { 10 };
    p.max_val = 6000;
    p.max_key = 200;
    let mut gen = Gen::new(rng.next(), ed);
    let mut h = gen.history::<K>(&p, cfg, &format!("c12 follow-up history on golden image {name}"));
    // half of the pool are keys already present in the image
    for (i, k) in expected.keys().enumerate().take(h.keys.len() / 2) {
        if !h.keys.contains(k) {
            h.keys[2 * i] = k.clone();
        }
    }
    let mon = Mon { get_after_put: true, final_sweep: true, decode_at_sync: true, iterate_at_sync: dec.n <= 1 << 20, decode_at_close: true, ..Default::default() };
    let r = run_ops(&mut s, &h, 0, &mon, ctx);
    s.close();
    ctx.count("golden.followup_calls", r.calls as u64);
    ctx.drain_notes();
    if let Ok(i2) = Image::read(&dir, map_name) {
        if i2.htx.len() < 4_000_000 {
            let d = i2.digest();
            ctx.digests.insert(d);
            ctx.nontrivial.insert(d);
        }
    }
    let _ = std::fs::remove_dir_all(&dir);
    r.stop.map(|st| {
        let st = match st {
            Stop::Violation(mut f) => {
                f.msg = format!("golden image {name}, while updating it further: {}", f.msg);
                Stop::Violation(f)
            }
            o => o,
        };
        (st, Some(h))
    })
}

/// the key bytes each key type makes of integers and strings are part of the released format (they are what is stored
/// and hashed): `conversions.txt` was written by the pinned commit, the current build must reproduce every line
fn check_conversions(golden_dir: &str, ctx: &mut Ctx) -> Option<String> {
    use abyssiniandb::{DbBytes, DbI64, DbMapKeyType, DbString, DbU64, DbVu64};
    let Ok(t) = std::fs::read_to_string(Path::new(golden_dir).join("conversions.txt")) else {
        ctx.inconclusive.push("conversions.txt of the golden set is missing".into());
        return None;
    };
    for l in t.lines().filter(|l| !l.starts_with('#') && !l.is_empty()) {
        let p: Vec<&str> = l.split(' ').collect();
        if p.len() < 3 {
            continue;
        }
        let want = p.get(3).copied().unwrap_or("");
        let r = crate::session::guarded(crate::session::STEP_BUDGET_BASE, || -> Option<Vec<u8>> {
            let ux = || p[2].parse::<u64>().ok();
            let ix = || p[2].parse::<i64>().ok();
            let sx = || unhex(p[2]).and_then(|b| String::from_utf8(b).ok());
            Some(match (p[0], p[1]) {
                ("bytes", "u64") => DbBytes::from(ux()?).as_bytes().to_vec(),
                ("bytes", "ref_u64") => DbBytes::from(&ux()?).as_bytes().to_vec(),
                ("string", "u64") => DbString::from(ux()?).as_bytes().to_vec(),
                ("string", "ref_u64") => DbString::from(&ux()?).as_bytes().to_vec(),
                ("u64", "u64") => DbU64::from(ux()?).as_bytes().to_vec(),
                ("u64", "ref_u64") => DbU64::from(&ux()?).as_bytes().to_vec(),
                ("vu64", "u64") => DbVu64::from(ux()?).as_bytes().to_vec(),
                ("vu64", "ref_u64") => DbVu64::from(&ux()?).as_bytes().to_vec(),
                ("i64", "i64") => DbI64::from(ix()?).as_bytes().to_vec(),
                ("i64", "ref_i64") => DbI64::from(&ix()?).as_bytes().to_vec(),
                ("bytes", "str") => DbBytes::from(sx()?.as_str()).as_bytes().to_vec(),
                ("string", "str") => DbString::from(sx()?.as_str()).as_bytes().to_vec(),
                ("u64", "str") => DbU64::from(sx()?.as_str()).as_bytes().to_vec(),
                ("i64", "str") => DbI64::from(sx()?.as_str()).as_bytes().to_vec(),
                _ => return None,
            })
        });
        ctx.count("golden.conversions_checked", 1);
        let got = match r {
            crate::session::Guard::Ok(Some(b)) => crate::util::hex(&b),
            crate::session::Guard::Ok(None) => continue,
            crate::session::Guard::Hang(m) | crate::session::Guard::Panic(m) => format!("(panic: {m})"),
        };
        if got != want {
            return Some(format!("the key bytes the {} key type makes of the {} {} are {got}; the released format has {want}", p[0], p[1], p[2]));
        }
    }
    None
}

pub fn run(a: &Args) -> Ctx {
    // every monitor that fires while a released image is read or updated refutes C12
    let mut ctx = Ctx::new("C12", &["C12", "C01", "C02", "C04", "C05", "C06"], &a.replay_dir, &a.shard_name());
    let mut rng = Rng::new(a.shard_seed() ^ 0xC12);
    let ed = edges();
    let golden_dir = std::env::var("ABYVERIF_GOLDEN_DIR").unwrap_or_else(|_| a.get("golden-dir").unwrap_or(GOLDEN_DIR).to_string());
    let mut dirs: Vec<PathBuf> = match std::fs::read_dir(&golden_dir) {
        Ok(d) => d.filter_map(|e| e.ok()).map(|e| e.path()).filter(|p| p.is_dir()).collect(),
        Err(e) => {
            ctx.inconclusive.push(format!("no golden images: {e}"));
            return ctx;
        }
    };
    dirs.sort();
    if dirs.is_empty() {
        ctx.inconclusive.push("no golden images".into());
        return ctx;
    }
    if a.shard == 0 {
        if let Some(m) = check_conversions(&golden_dir, &mut ctx) {
            let st = ctx.classify(finding(&["C12"], "golden", 0, m));
            ctx.record_stop(st, None);
            return ctx;
        }
    }
    for (i, g) in dirs.iter().enumerate() {
        if i % a.nshards != a.shard {
            continue;
        }
        let name = g.file_name().unwrap().to_string_lossy().to_string();
        let kt = name.split('_').next().unwrap_or("bytes").to_string();
        ctx.evaluations += 1;
        ctx.count(&format!("golden.kt.{kt}"), 1);
        fn go<K: Kt>(a: &Args, g: &Path, ctx: &mut Ctx, rng: &mut Rng, ed: &Edges) -> Option<(Stop, Option<History>)> {
            golden_case::<K>(a, g, ctx, rng, ed)
        }
        if let Some((stop, h)) = with_kt!(kt.as_str(), go(a, g, &mut ctx, &mut rng, &ed)) {
            let v = matches!(stop, Stop::Violation(_));
            ctx.record_stop(stop, h.as_ref());
            if v {
                return ctx;
            }
        }
        if ctx.samples.len() < 2 {
            let mut s = J::obj();
            s.set("golden_image", J::s(&name));
            s.set("note", J::s("decoded independently, opened with other parameters, compared with expected.txt, then driven by a random follow-up history with result/iteration/decoder monitors"));
            ctx.samples.push(s);
        }
    }
    // files written now: decoded by the independent decoder (header layout, encodings, placement)
    let n_hist = a.get_u64("histories", 1) as usize;
    let mon = Mon { decode_at_sync: true, decode_at_close: true, ..Default::default() };
    for i in 0..n_hist {
        let kt = pick_kt(&mut rng, 20);
        let mut p = Profile::base(*rng.pick(&[30usize, 300]), a.get_u64("ops", 2000) as usize);
        p.w_sync = 10;
        let cfg = Cfg { buckets: Cfg::random_buckets(&mut rng, false), key: Buf::PerMille(1000), val: Buf::Auto, htx: Buf::PerMille(1000) };
        let mut gen = Gen::new(rng.next(), &ed);
        let h = gen_history_kt(kt, &mut gen, &p, cfg, &format!("c12 fresh image shard={} i={i}", a.shard));
        if run_and_record(a, &h, &mon, &mut ctx, &format!("f{i}")) {
            break;
        }
    }
    ctx
}
