//! C13: opening files as the wrong key type or with foreign signatures is refused; refused opens change nothing.
use super::c11::{make_keys, open_dyn};
use super::*;
use crate::session::{guarded, Guard, Model};

fn sig_of(kt: &str) -> [u8; 8] {
    match kt {
        "bytes" => *b"bytes\0\0\0",
        "string" => *b"string\0\0",
        "i64" => *b"i64_le\0\0",
        _ => *b"u64_le\0\0",
    }
}

fn type_name(kt: &str) -> &'static str {
    match kt {
        "bytes" => "DbBytes",
        "string" => "DbString",
        "u64" => "DbU64",
        "i64" => "DbI64",
        _ => "DbVu64",
    }
}

/// create a map of type `kt` with a few entries, close it, return its image and model
fn build(dir: &Path, kt: &str, rng: &mut Rng, entries: usize) -> Result<(Image, Model, Vec<Vec<u8>>), String> {
    let _ = std::fs::remove_dir_all(dir);
    let db = abyssiniandb::open_file(dir).map_err(|e| e.to_string())?;
    let mut m = open_dyn(&db, kt, "m", &Cfg::small(8)).map_err(|e| e.to_string())?;
    let keys = make_keys(kt, rng, entries);
    let mut model = Model::new();
    for (i, k) in keys.iter().enumerate() {
        let v = crate::util::gen_bytes(5 + i * 9, i as u32, 0);
        m.put(k, &v).map_err(|e| e.to_string())?;
        model.insert(k.clone(), v);
    }
    drop(m);
    drop(db);
    let img = Image::read(dir, "m").map_err(|e| e.to_string())?;
    Ok((img, model, keys))
}

enum Outcome {
    RefusedErr(String),
    RefusedPanic(String),
    Accepted,
}

/// try to open dir/m as `kt` with a fresh FileDb; optionally check that the same FileDb still opens type `ok_kt`
fn try_open(dir: &Path, kt: &str) -> Outcome {
    let r = guarded(crate::session::STEP_BUDGET_BASE, || -> std::io::Result<()> {
        let db = abyssiniandb::open_file(dir)?;
        let m = open_dyn(&db, kt, "m", &Cfg::small(64))?;
        drop(m);
        drop(db);
        Ok(())
    });
    match r {
        Guard::Ok(Ok(())) => Outcome::Accepted,
        Guard::Ok(Err(e)) => Outcome::RefusedErr(e.to_string()),
        Guard::Panic(m) | Guard::Hang(m) => Outcome::RefusedPanic(m),
    }
}

struct Cell {
    desc: String,
    signature: String,
}

fn check_cell(dir: &Path, img: &Image, open_as: &str, cell: Cell, ctx: &mut Ctx) {
    // write the (possibly mutated) image, try, compare bytes
    if img.write(dir, "m").is_err() {
        ctx.inconclusive.push("cannot write image".into());
        return;
    }
    ctx.evaluations += 1;
    if ctx.samples.len() < 3 && ctx.evaluations % 37 == 1 {
        ctx.samples.push(J::s(cell.desc.clone()));
    }
    let out = try_open(dir, open_as);
    let after = Image::read(dir, "m");
    match out {
        Outcome::Accepted => {
            let mut f = finding(&["C13"], "wrong_open", 0, format!("{}: the open was accepted", cell.desc));
            f.signature = cell.signature;
            let st = ctx.classify(f);
            ctx.record_stop(st, None);
            ctx.count("accepted", 1);
        }
        Outcome::RefusedErr(_) => ctx.count("refused.by_error", 1),
        Outcome::RefusedPanic(m) => {
            let which = if m.contains("signature1") { "signature1" } else if m.contains("signature2") { "signature2" } else { "other" };
            ctx.count(&format!("refused.by_panic.{which}"), 1);
        }
    }
    match after {
        Ok(a) => {
            ctx.count("byte_comparisons", 1);
            if let Some(d) = img.diff(&a) {
                let f = finding(&["C13"], "refused_open_changed_files", 0, format!("{}: the attempt changed the files: {d}", cell.desc));
                let st = ctx.classify(f);
                ctx.record_stop(st, None);
            }
        }
        Err(e) => {
            let f = finding(&["C13"], "refused_open_changed_files", 0, format!("{}: files unreadable after the attempt: {e}", cell.desc));
            let st = ctx.classify(f);
            ctx.record_stop(st, None);
        }
    }
}


fn head_and_len(p: &Path) -> Option<(u64, Vec<u8>)> {
    use std::io::Read;
    let mut f = std::fs::File::open(p).ok()?;
    let len = f.metadata().ok()?.len();
    let mut buf = vec![0u8; (len as usize).min(1 << 20)];
    f.read_exact(&mut buf).ok()?;
    Some((len, buf))
}

fn judge_attempt(out: Outcome, cell: &Cell, ctx: &mut Ctx) {
    match out {
        Outcome::Accepted => {
            let mut f = finding(&["C13"], "wrong_open", 0, format!("{}: the open was accepted", cell.desc));
            f.signature = cell.signature.clone();
            let st = ctx.classify(f);
            ctx.record_stop(st, None);
            ctx.count("accepted", 1);
        }
        Outcome::RefusedErr(_) => ctx.count("refused.by_error", 1),
        Outcome::RefusedPanic(_) => ctx.count("refused.by_panic.partial_or_padded", 1),
    }
}

/// the files of `img` minus those in `gone` (bit 0 key, 1 val, 2 htx; absent or zero-length), optionally with a foreign
/// 16-byte header in file `foreign.0`; every file that exists with content before the attempt must be unchanged after it
fn check_partial(dir: &Path, img: &Image, gone: usize, empty: bool, foreign: Option<(usize, Vec<u8>)>, open_as: &str, cell: Cell, ctx: &mut Ctx) {
    let _ = std::fs::remove_dir_all(dir);
    if std::fs::create_dir_all(dir).is_err() {
        ctx.inconclusive.push("cannot create the scratch directory".into());
        return;
    }
    let names = ["key", "val", "htx"];
    let mut before: Vec<(std::path::PathBuf, Vec<u8>)> = Vec::new();
    for (i, n) in names.iter().enumerate() {
        let p = dir.join(format!("m.{n}"));
        if gone & (1 << i) != 0 {
            if empty {
                let _ = std::fs::write(&p, b"");
            }
            continue;
        }
        let mut b = match i { 0 => img.key.clone(), 1 => img.val.clone(), _ => img.htx.clone() };
        if let Some((f, bytes)) = foreign.as_ref() {
            if *f == i {
                b[0..16].copy_from_slice(bytes);
            }
        }
        if std::fs::write(&p, &b).is_err() {
            ctx.inconclusive.push("cannot write image".into());
            return;
        }
        before.push((p, b));
    }
    ctx.evaluations += 1;
    let out = try_open(dir, open_as);
    judge_attempt(out, &cell, ctx);
    for (p, b) in before {
        ctx.count("byte_comparisons", 1);
        match std::fs::read(&p) {
            Ok(x) if x == b => {}
            Ok(x) => {
                let at = x.iter().zip(b.iter()).position(|(u, v)| u != v).unwrap_or(x.len().min(b.len()));
                let f = finding(&["C13"], "refused_open_changed_files", 0, format!("{}: the attempt changed {} (length {} -> {}, first difference at byte {at})", cell.desc, p.file_name().unwrap().to_string_lossy(), b.len(), x.len()));
                let st = ctx.classify(f);
                ctx.record_stop(st, None);
            }
            Err(e) => {
                let f = finding(&["C13"], "refused_open_changed_files", 0, format!("{}: {} unreadable after the attempt: {e}", cell.desc, p.display()));
                let st = ctx.classify(f);
                ctx.record_stop(st, None);
            }
        }
    }
    let _ = std::fs::remove_dir_all(dir);
}

/// the files of `img`, those in `padded` extended (sparse) to `len` bytes; length and the first MiB of each are compared
fn check_padded(dir: &Path, img: &Image, padded: usize, len: u64, open_as: &str, cell: Cell, ctx: &mut Ctx) {
    let _ = std::fs::remove_dir_all(dir);
    if img.write(dir, "m").is_err() {
        ctx.inconclusive.push("cannot write image".into());
        return;
    }
    let names = ["key", "val", "htx"];
    for (i, n) in names.iter().enumerate() {
        if padded & (1 << i) != 0 {
            let ok = std::fs::OpenOptions::new().write(true).open(dir.join(format!("m.{n}"))).and_then(|f| f.set_len(len)).is_ok();
            if !ok {
                ctx.inconclusive.push("cannot extend a scratch file to 4 GiB (sparse)".into());
                return;
            }
        }
    }
    let before: Vec<Option<(u64, Vec<u8>)>> = names.iter().map(|n| head_and_len(&dir.join(format!("m.{n}")))).collect();
    ctx.evaluations += 1;
    let out = try_open(dir, open_as);
    judge_attempt(out, &cell, ctx);
    for (i, n) in names.iter().enumerate() {
        let after = head_and_len(&dir.join(format!("m.{n}")));
        ctx.count("byte_comparisons", 1);
        if after != before[i] {
            let f = finding(&["C13"], "refused_open_changed_files", 0, format!("{}: the attempt changed m.{n} (length {:?} -> {:?}, or its first MiB)", cell.desc, before[i].as_ref().map(|x| x.0), after.as_ref().map(|x| x.0)));
            let st = ctx.classify(f);
            ctx.record_stop(st, None);
        }
    }
    let _ = std::fs::remove_dir_all(dir);
}

/// file `f` of the image replaced by `junk` (a short foreign file); all three must be unchanged after the attempt
fn check_short(dir: &Path, img: &Image, f: usize, junk: &[u8], open_as: &str, cell: Cell, ctx: &mut Ctx) {
    let _ = std::fs::remove_dir_all(dir);
    if img.write(dir, "m").is_err() {
        ctx.inconclusive.push("cannot write image".into());
        return;
    }
    let names = ["key", "val", "htx"];
    if std::fs::write(dir.join(format!("m.{}", names[f])), junk).is_err() {
        ctx.inconclusive.push("cannot write image".into());
        return;
    }
    let before: Vec<Vec<u8>> = names.iter().map(|n| std::fs::read(dir.join(format!("m.{n}"))).unwrap_or_default()).collect();
    ctx.evaluations += 1;
    let out = try_open(dir, open_as);
    judge_attempt(out, &cell, ctx);
    for (i, n) in names.iter().enumerate() {
        ctx.count("byte_comparisons", 1);
        let after = std::fs::read(dir.join(format!("m.{n}"))).unwrap_or_default();
        if after != before[i] {
            let fnd = finding(&["C13"], "refused_open_changed_files", 0, format!("{}: the attempt changed m.{n} (length {} -> {})", cell.desc, before[i].len(), after.len()));
            let st = ctx.classify(fnd);
            ctx.record_stop(st, None);
        }
    }
    let _ = std::fs::remove_dir_all(dir);
}

/// an older FileDb of the directory and a handle of the map (opened as its own type, no updates) stay alive while
/// (1) another FileDb object opens the map as a wrong type, (2) the signature of a file is changed on disk and
/// another FileDb object opens the map as its own type. Both must be refused; files are compared before the older
/// handle is dropped.
fn check_with_live_handle(dir: &Path, img: &Image, ka: &str, kb: &str, ctx: &mut Ctx) {
    let _ = std::fs::remove_dir_all(dir);
    if img.write(dir, "m").is_err() {
        ctx.inconclusive.push("cannot write image".into());
        return;
    }
    let older = guarded(crate::session::STEP_BUDGET_BASE, || -> std::io::Result<(abyssiniandb::filedb::FileDb, Box<dyn super::c11::DynMap>)> {
        let db = abyssiniandb::open_file(dir)?;
        let m = open_dyn(&db, ka, "m", &Cfg::small(8))?;
        Ok((db, m))
    });
    let Guard::Ok(Ok(older)) = older else {
        ctx.inconclusive.push("cannot open the intact map".into());
        return;
    };
    for step in 0..2 {
        let mut im = img.clone();
        let (open_as, what) = if step == 0 {
            (kb, format!("{} map opened as {} while an older handle of the map is alive", type_name(ka), type_name(kb)))
        } else {
            // the type signature of the .val file is replaced on disk by another type's
            im.val[8..16].copy_from_slice(&sig_of(kb));
            if std::fs::write(dir.join("m.val"), &im.val).is_err() {
                ctx.inconclusive.push("cannot write image".into());
                return;
            }
            (ka, format!("{} map whose .val got the {} signature on disk while an older handle of the map is alive, opened as {}", type_name(ka), type_name(kb), type_name(ka)))
        };
        ctx.evaluations += 1;
        let out = try_open(dir, open_as);
        let cell = Cell { desc: what.clone(), signature: format!("live_handle step={step} created={} other={} outcome=accepted", type_name(ka), type_name(kb)) };
        judge_attempt(out, &cell, ctx);
        match Image::read(dir, "m") {
            Ok(after) => {
                ctx.count("byte_comparisons", 1);
                if let Some(d) = im.diff(&after) {
                    let fnd = finding(&["C13"], "refused_open_changed_files", 0, format!("{what}: the attempt changed the files: {d}"));
                    let st = ctx.classify(fnd);
                    ctx.record_stop(st, None);
                }
            }
            Err(e) => {
                let fnd = finding(&["C13"], "refused_open_changed_files", 0, format!("{what}: files unreadable after the attempt: {e}"));
                let st = ctx.classify(fnd);
                ctx.record_stop(st, None);
            }
        }
    }
    drop(older);
    let _ = std::fs::remove_dir_all(dir);
}

pub fn run(a: &Args) -> Ctx {
    let mut ctx = Ctx::new("C13", &["C13"], &a.replay_dir, &a.shard_name());
    let mut rng = Rng::new(a.shard_seed() ^ 0xC13);
    let dir = a.scratch.join("c13");
    // every value of every signature byte in both tiers (61k opens are cheap): the mutation matrix is exhaustive
    let all_values = true;
    let mut job = 0usize;
    // every type twice: a populated map, and a map that was created but never held a record (header-only files)
    for (&ka, entries) in KT_NAMES.iter().flat_map(|k| [(k, 6usize), (k, 0usize)]) {
        ctx.count(if entries == 0 { "maps.never_populated" } else { "maps.populated" }, 1);
        let (img, model, keys) = match build(&dir, ka, &mut rng, entries) {
            Ok(x) => x,
            Err(e) => {
                ctx.inconclusive.push(format!("cannot build a {ka} map: {e}"));
                return ctx;
            }
        };
        // (a) ordered pairs: created as A, opened as B
        for &kb in KT_NAMES.iter() {
            if ka == kb {
                continue;
            }
            job += 1;
            if job % a.nshards != a.shard {
                continue;
            }
            let cell = Cell { desc: format!("map created as {} opened as {}", type_name(ka), type_name(kb)), signature: format!("wrong_type_open from={} to={} outcome=accepted", type_name(ka), type_name(kb)) };
            check_cell(&dir, &img, kb, cell, &mut ctx);
            ctx.count("cells.type_pairs", 1);
            // the same FileDb object survives a refusal and still opens the intact map as its own type
            let r = guarded(crate::session::STEP_BUDGET_BASE, || -> Result<(), String> {
                let db = abyssiniandb::open_file(&dir).map_err(|e| e.to_string())?;
                let refused = std::panic::catch_unwind(std::panic::AssertUnwindSafe(|| open_dyn(&db, kb, "m", &Cfg::small(8)).is_err())).unwrap_or(true);
                let mut m = open_dyn(&db, ka, "m", &Cfg::small(8)).map_err(|e| format!("after a refused open the same database handle cannot open the map as its own type: {e}"))?;
                for k in keys.iter() {
                    if m.get(k).map_err(|e| e.to_string())? != model.get(k).cloned() {
                        return Err(format!("after a {} open as {}, the map read as its own type has other contents", if refused { "refused" } else { "accepted" }, type_name(kb)));
                    }
                }
                Ok(())
            });
            match r {
                Guard::Ok(Ok(())) => ctx.count("reopen_after_refusal", 1),
                Guard::Ok(Err(m)) | Guard::Panic(m) | Guard::Hang(m) => {
                    // opening as the K1 partner type first is the known finding's territory: contents may be reinterpreted
                    let k1 = (ka == "u64" && kb == "vu64") || (ka == "vu64" && kb == "u64");
                    if !k1 {
                        let f = finding(&["C13"], "after_refusal", 0, format!("created as {}, refused as {}: {m}", type_name(ka), type_name(kb)));
                        let st = ctx.classify(f);
                        ctx.record_stop(st, None);
                    }
                }
            }
            let _ = img.write(&dir, "m");
        }
        // (b) one file carries another type's signature
        for &kb in KT_NAMES.iter() {
            if sig_of(ka) == sig_of(kb) {
                continue;
            }
            for f in 0..3usize {
                job += 1;
                if job % a.nshards != a.shard {
                    continue;
                }
                let mut im = img.clone();
                let fname = ["key", "val", "htx"][f];
                {
                    let b = match f {
                        0 => &mut im.key,
                        1 => &mut im.val,
                        _ => &mut im.htx,
                    };
                    b[8..16].copy_from_slice(&sig_of(kb));
                }
                for open_as in [ka, kb] {
                    let cell = Cell { desc: format!("{} map whose .{fname} carries the {} type signature, opened as {}", type_name(ka), type_name(kb), type_name(open_as)), signature: format!("foreign_signature_in={fname} created={} foreign={} opened={} outcome=accepted", type_name(ka), type_name(kb), type_name(open_as)) };
                    check_cell(&dir, &im, open_as, cell, &mut ctx);
                    ctx.count("cells.foreign_type_signature", 1);
                }
            }
        }
        // (d) whole foreign headers: other formats' names, blank headers, signatures swapped between the files
        let foreign16: Vec<(&str, Vec<u8>)> = vec![
            ("16 zero bytes", vec![0u8; 16]),
            ("16 0xFF bytes", vec![0xFF; 16]),
            ("sibling format siamdbV", { let mut v = b"siamdbV\0".to_vec(); v.extend_from_slice(&sig_of(ka)); v }),
            ("sibling format siamdbK", { let mut v = b"siamdbK\0".to_vec(); v.extend_from_slice(&sig_of(ka)); v }),
            ("sibling format siamdbH", { let mut v = b"siamdbH\0".to_vec(); v.extend_from_slice(&sig_of(ka)); v }),
            ("abysdb with another file letter", { let mut v = b"abysdbX\0".to_vec(); v.extend_from_slice(&sig_of(ka)); v }),
            ("upper-case format name", { let mut v = b"ABYSDBV\0".to_vec(); v.extend_from_slice(&sig_of(ka)); v }),
            ("type signature without padding zeros", { let mut v = img.key[0..8].to_vec(); let mut t = sig_of(ka); for b in t.iter_mut() { if *b == 0 { *b = b' '; } } v.extend_from_slice(&t); v }),
            ("random bytes", crate::util::gen_bytes(16, 77, 0)),
        ];
        for f in 0..3usize {
            let fname = ["key", "val", "htx"][f];
            for (what, bytes) in foreign16.iter() {
                job += 1;
                if job % a.nshards != a.shard {
                    continue;
                }
                let mut im = img.clone();
                {
                    let b = match f { 0 => &mut im.key, 1 => &mut im.val, _ => &mut im.htx };
                    let keep_sig1 = what.starts_with("type signature");
                    if keep_sig1 {
                        b[8..16].copy_from_slice(&bytes[8..16]);
                    } else {
                        b[0..16].copy_from_slice(bytes);
                    }
                }
                let cell = Cell { desc: format!("{} map ({} entries) whose .{fname} starts with {what}, opened as {}", type_name(ka), entries, type_name(ka)), signature: format!("foreign_header file={fname} what={what} type={} outcome=accepted", type_name(ka)) };
                check_cell(&dir, &im, ka, cell, &mut ctx);
                ctx.count("cells.foreign_headers", 1);
            }
            // the whole header blanked (an interrupted creation must not be mistaken for a foreign file being ours)
            for blank in [128usize, 192] {
                job += 1;
                if job % a.nshards != a.shard {
                    continue;
                }
                let mut im = img.clone();
                {
                    let b = match f { 0 => &mut im.key, 1 => &mut im.val, _ => &mut im.htx };
                    if entries == 0 && f != 2 {
                        continue; // a header-only file that is blanked IS an empty file's worth of zeros: nothing foreign about it
                    }
                    let n = blank.min(b.len());
                    for x in b[..n].iter_mut() {
                        *x = 0;
                    }
                }
                let cell = Cell { desc: format!("{} map ({} entries) whose .{fname} has its first {blank} bytes zeroed, opened as {}", type_name(ka), entries, type_name(ka)), signature: format!("blank_header file={fname} bytes={blank} type={} outcome=accepted", type_name(ka)) };
                check_cell(&dir, &im, ka, cell, &mut ctx);
                ctx.count("cells.blank_headers", 1);
            }
            // this file's 8-byte format signature replaced by that of one of the other two files
            for g in 0..3usize {
                if g == f {
                    continue;
                }
                job += 1;
                if job % a.nshards != a.shard {
                    continue;
                }
                let src: [u8; 8] = { let b = match g { 0 => &img.key, 1 => &img.val, _ => &img.htx }; let mut x = [0u8; 8]; x.copy_from_slice(&b[0..8]); x };
                let mut im = img.clone();
                {
                    let b = match f { 0 => &mut im.key, 1 => &mut im.val, _ => &mut im.htx };
                    b[0..8].copy_from_slice(&src);
                }
                let cell = Cell { desc: format!("{} map whose .{fname} carries the format signature of its .{}, opened as {}", type_name(ka), ["key", "val", "htx"][g], type_name(ka)), signature: format!("swapped_format_signature file={fname} from={} type={} outcome=accepted", ["key", "val", "htx"][g], type_name(ka)) };
                check_cell(&dir, &im, ka, cell, &mut ctx);
                ctx.count("cells.swapped_format_signatures", 1);
            }
        }
        // (e) some of the three files are missing or empty while the remaining ones belong to another type / carry a
        // foreign header: what is there must still be checked, and must stay as it is
        for &kb in KT_NAMES.iter() {
            if sig_of(ka) == sig_of(kb) {
                continue;
            }
            for mode in ["absent", "empty"] {
                for gone in [0b011usize, 0b001, 0b010, 0b100, 0b101, 0b110] {
                    job += 1;
                    if job % a.nshards != a.shard {
                        continue;
                    }
                    let names = ["key", "val", "htx"];
                    let gone_names: Vec<&str> = (0..3).filter(|i| gone & (1 << i) != 0).map(|i| names[i]).collect();
                    let cell = Cell {
                        desc: format!("{} map ({entries} entries) with .{} {mode}, opened as {}", type_name(ka), gone_names.join(" and ."), type_name(kb)),
                        signature: format!("partial_files gone={} mode={mode} created={} opened={} outcome=accepted", gone_names.join("+"), type_name(ka), type_name(kb)),
                    };
                    check_partial(&dir, &img, gone, mode == "empty", None, kb, cell, &mut ctx);
                    ctx.count("cells.partial_file_sets", 1);
                }
            }
        }
        for (what, bytes) in foreign16.iter().filter(|(w, _)| !w.starts_with("type signature")) {
            for (f, gone) in [(2usize, 0b011usize), (0, 0b110), (1, 0b101), (2, 0b001), (0, 0b010)] {
                job += 1;
                if job % a.nshards != a.shard {
                    continue;
                }
                let names = ["key", "val", "htx"];
                let gone_names: Vec<&str> = (0..3).filter(|i| gone & (1 << i) != 0).map(|i| names[i]).collect();
                let cell = Cell {
                    desc: format!("{} map ({entries} entries) whose .{} starts with {what} while .{} are absent, opened as {}", type_name(ka), names[f], gone_names.join(" and ."), type_name(ka)),
                    signature: format!("partial_files_foreign_header file={} what={what} gone={} type={} outcome=accepted", names[f], gone_names.join("+"), type_name(ka)),
                };
                check_partial(&dir, &img, gone, false, Some((f, bytes.clone())), ka, cell, &mut ctx);
                ctx.count("cells.partial_file_sets_foreign_header", 1);
            }
        }
        // (f) files whose length is a multiple of 4 GiB (sparse): the length must not matter for what is checked
        if entries > 0 {
            for &kb in KT_NAMES.iter() {
                if sig_of(ka) == sig_of(kb) {
                    continue;
                }
                for padded in [0b111usize, 0b001, 0b010, 0b100] {
                    job += 1;
                    if job % a.nshards != a.shard {
                        continue;
                    }
                    let mult = 1 + (job as u64 % 2);
                    let names = ["key", "val", "htx"];
                    let pn: Vec<&str> = (0..3).filter(|i| padded & (1 << i) != 0).map(|i| names[i]).collect();
                    let cell = Cell {
                        desc: format!("{} map whose .{} are padded to {} GiB, opened as {}", type_name(ka), pn.join(" and ."), 4 * mult, type_name(kb)),
                        signature: format!("padded_files which={} created={} opened={} outcome=accepted", pn.join("+"), type_name(ka), type_name(kb)),
                    };
                    check_padded(&dir, &img, padded, mult << 32, kb, cell, &mut ctx);
                    ctx.count("cells.padded_to_4gib_multiples", 1);
                }
            }
        }
        // (g) one of the files is a short foreign file (shorter than a header, down to one byte): nothing of this format's
        // signature can be in it; it must be refused and keep its length and bytes
        for f in 0..3usize {
            for len in [1usize, 2, 7, 8, 9, 15, 16, 17, 64, 127] {
                job += 1;
                if job % a.nshards != a.shard {
                    continue;
                }
                let names = ["key", "val", "htx"];
                let junk = crate::util::gen_bytes(len, (job as u32) | 0x100, 1);
                let cell = Cell {
                    desc: format!("{} map ({entries} entries) whose .{} is a foreign file of {len} bytes, opened as {}", type_name(ka), names[f], type_name(ka)),
                    signature: format!("short_foreign_file file={} len={len} type={} outcome=accepted", names[f], type_name(ka)),
                };
                check_short(&dir, &img, f, &junk, ka, cell, &mut ctx);
                ctx.count("cells.short_foreign_files", 1);
            }
        }
        // (h) the same attempts while an older handle of the directory (and of the map, opened rightly) is still alive
        // in this thread: what a new `open_file` + open decides must come from the files, not from the other handle
        if entries > 0 {
            for &kb in KT_NAMES.iter() {
                if sig_of(ka) == sig_of(kb) {
                    continue;
                }
                job += 1;
                if job % a.nshards != a.shard {
                    continue;
                }
                check_with_live_handle(&dir, &img, ka, kb, &mut ctx);
                ctx.count("cells.with_older_live_handle", 1);
            }
        }
        // (i) a record file with a valid header whose length is not a multiple of 8 (a torn tail), next to a file with a
        // foreign signature: the open is refused, and the torn file keeps its odd length and its bytes
        if entries > 0 {
            for torn in 0..2usize {
                for foreign in 0..3usize {
                    if foreign == torn {
                        continue;
                    }
                    for delta in [5i64, 3, -3, 1] {
                        job += 1;
                        if job % a.nshards != a.shard {
                            continue;
                        }
                        let names = ["key", "val", "htx"];
                        let mut im = img.clone();
                        {
                            let b = match torn { 0 => &mut im.key, _ => &mut im.val };
                            if delta > 0 {
                                b.extend_from_slice(&crate::util::gen_bytes(delta as usize, 9, 1));
                            } else {
                                let n = b.len() - (-delta) as usize;
                                b.truncate(n);
                            }
                        }
                        {
                            let b = match foreign { 0 => &mut im.key, 1 => &mut im.val, _ => &mut im.htx };
                            b[0..8].copy_from_slice(b"siamdbX\0");
                        }
                        let cell = Cell {
                            desc: format!("{} map whose .{} has a torn tail ({delta:+} bytes) and whose .{} carries a foreign format signature, opened as {}", type_name(ka), names[torn], names[foreign], type_name(ka)),
                            signature: format!("torn_tail file={} delta={delta} foreign={} type={} outcome=accepted", names[torn], names[foreign], type_name(ka)),
                        };
                        check_cell(&dir, &im, ka, cell, &mut ctx);
                        ctx.count("cells.torn_tails", 1);
                    }
                }
            }
        }
        // (c) single-byte mutations of the 16 signature bytes of each file, opened as A
        for f in 0..3usize {
            let fname = ["key", "val", "htx"][f];
            for pos in 0..16usize {
                job += 1;
                if job % a.nshards != a.shard {
                    continue;
                }
                let orig = match f {
                    0 => img.key[pos],
                    1 => img.val[pos],
                    _ => img.htx[pos],
                };
                let vals: Vec<u8> = if all_values { (0..=255u8).filter(|&v| v != orig).collect() } else {
                    let mut v = vec![orig.wrapping_add(1), orig.wrapping_sub(1), 0xFF, orig ^ 0x20, 0];
                    v.retain(|&x| x != orig);
                    v.sort_unstable();
                    v.dedup();
                    v
                };
                for nv in vals {
                    let mut im = img.clone();
                    match f {
                        0 => im.key[pos] = nv,
                        1 => im.val[pos] = nv,
                        _ => im.htx[pos] = nv,
                    }
                    let cell = Cell { desc: format!("{} map with byte {pos} of the .{fname} signature changed from {orig:#04x} to {nv:#04x}, opened as {}", type_name(ka), type_name(ka)), signature: format!("mutated_signature file={fname} byte={pos} type={} outcome=accepted", type_name(ka)) };
                    check_cell(&dir, &im, ka, cell, &mut ctx);
                    ctx.count("cells.byte_mutations", 1);
                    ctx.digests.insert(((entries as u64) << 48) | ((f as u64) << 40) | ((pos as u64) << 16) | ((nv as u64) << 8) | KT_NAMES.iter().position(|x| *x == ka).unwrap() as u64);
                }
            }
        }
    }
    for d in ctx.digests.clone() {
        ctx.nontrivial.insert(d);
    }
    let _ = std::fs::remove_dir_all(&dir);
    ctx
}
