//! C16: a failed flush is reported and loses nothing. Write refusals injected with RLIMIT_FSIZE
//! (soft limit lowered right before the call, SIGXFSZ ignored), in this shard's own process.
use super::*;
use crate::session::{guarded, Guard, Model};
use abyssiniandb::verif_hooks as hooks;
use abyssiniandb::{DbBytes, DbXxx, DbXxxBase};

pub fn child(_a: &Args) -> i32 {
    2
}

struct Built {
    db: abyssiniandb::filedb::FileDb,
    /// None while every handle of the map is dropped (the database object keeps the map open)
    map_opt: Option<abyssiniandb::filedb::FileDbMapDbBytes>,
    /// a second handle of the same map, obtained by a lookup of its own; it has flushed once while the map was clean
    other: Option<abyssiniandb::filedb::FileDbMapDbBytes>,
    /// clean maps of other key types in the same database (visited after the bytes map by a database-level sync)
    _side: (abyssiniandb::filedb::FileDbMapDbString, abyssiniandb::filedb::FileDbMapDbVu64),
    model: Model,
    keys: Vec<Vec<u8>>,
}

/// shape 0: big values (.val largest); 1: long keys, tiny values (.key largest); 2: big table, short entries (.htx largest)
fn build(dir: &Path, shape: u32, seed: u64) -> Result<Built, String> {
    let _ = std::fs::remove_dir_all(dir);
    let mut rng = Rng::new(seed);
    let (n, nkeys, klen, vlen): (u64, usize, usize, usize) = match shape {
        0 => (64, 40, 12, 3000),
        1 => (64, 60, 5000, 4),
        _ => (65536, 400, 6, 3),
    };
    let cfg = Cfg { buckets: Buckets::Size(n), key: Buf::PerMille(1000), val: Buf::Auto, htx: Buf::PerMille(1000) };
    let db = abyssiniandb::open_file(dir).map_err(|e| e.to_string())?;
    let mut map = db.db_map_bytes_with_params("m", cfg.params()).map_err(|e| e.to_string())?;
    let mut model = Model::new();
    let mut keys = Vec::new();
    for i in 0..nkeys {
        let mut k = crate::util::gen_bytes(klen, (seed as u32).wrapping_add(i as u32), 1);
        k.extend_from_slice(format!("{i}").as_bytes());
        keys.push(k);
    }
    // phase 1: a durable base
    for (i, k) in keys.iter().enumerate().take(nkeys / 2) {
        let v = crate::util::gen_bytes(vlen + (i % 7), i as u32, 0);
        map.put(&k[..], &v).map_err(|e| e.to_string())?;
        model.insert(k.clone(), v);
    }
    let mut side_s = db.db_map_string_with_params("zz_side_s", Cfg::small(8).params()).map_err(|e| e.to_string())?;
    let mut side_v = db.db_map_vu64_with_params("zz_side_v", Cfg::small(8).params()).map_err(|e| e.to_string())?;
    side_s.put_string("clean", "map").map_err(|e| e.to_string())?;
    side_v.put(&7u64, b"clean").map_err(|e| e.to_string())?;
    db.sync_all().map_err(|e| e.to_string())?;
    let mut other = db.db_map_bytes("m").map_err(|e| e.to_string())?;
    other.flush().map_err(|e| e.to_string())?;
    // phase 2: unsynced updates touching all three files (inserts, overwrites that relocate, deletes)
    for (i, k) in keys.iter().enumerate().skip(nkeys / 2) {
        let v = crate::util::gen_bytes(vlen + (i % 5), 500 + i as u32, 0);
        map.put(&k[..], &v).map_err(|e| e.to_string())?;
        model.insert(k.clone(), v);
    }
    for i in 0..(nkeys / 6) {
        let k = &keys[rng.below(nkeys as u64 / 2) as usize];
        if i % 2 == 0 {
            let v = crate::util::gen_bytes(vlen * 2 + 50, 900 + i as u32, 0);
            map.put(&k[..], &v).map_err(|e| e.to_string())?;
            model.insert(k.clone(), v);
        } else {
            map.delete(&k[..]).map_err(|e| e.to_string())?;
            model.remove(k);
        }
    }
    Ok(Built { db, map_opt: Some(map), other: Some(other), model, keys, _side: (side_s, side_v) })
}

impl Built {
    fn map(&mut self) -> &mut abyssiniandb::filedb::FileDbMapDbBytes {
        if self.map_opt.is_none() {
            self.map_opt = Some(self.db.db_map_bytes("m").expect("the open map is handed out again"));
        }
        self.map_opt.as_mut().unwrap()
    }
}

fn disk_len(dir: &Path, ext: &str) -> u64 {
    std::fs::metadata(dir.join(format!("m.{ext}"))).map(|m| m.len()).unwrap_or(0)
}

fn thresholds(dir: &Path, shape: u32, seed: u64, all: bool, cap: usize) -> Result<Vec<u64>, String> {
    // build once to learn the sizes (the state is a deterministic function of shape and seed)
    let b = build(dir, shape, seed)?;
    let on_disk: Vec<u64> = ["val", "key", "htx"].iter().map(|e| disk_len(dir, e)).collect();
    drop(b); // Drop flushes: final sizes
    let fin: Vec<u64> = ["val", "key", "htx"].iter().map(|e| disk_len(dir, e)).collect();
    let mut t: Vec<u64> = vec![0, 1, 191, 192, 193];
    let maxlen = *fin.iter().max().unwrap();
    for l in on_disk.iter().chain(fin.iter()) {
        for d in [-1i64, 0, 1] {
            t.push((*l as i64 + d).max(0) as u64);
        }
    }
    let mut grid: Vec<u64> = Vec::new();
    for (i, &l) in fin.iter().enumerate() {
        let chunk = if i == 0 { 4096 } else { 131072 };
        let mut c = chunk;
        while c < l + chunk {
            for d in [-1i64, 0, 1] {
                grid.push((c as i64 + d) as u64);
            }
            c += chunk;
        }
    }
    grid.sort_unstable();
    grid.dedup();
    if all || grid.len() <= cap {
        t.extend(grid);
    } else {
        let step = grid.len() as f64 / cap as f64;
        for i in 0..cap {
            t.push(grid[(i as f64 * step) as usize]);
        }
    }
    t.push(maxlen + 1);
    t.push(maxlen + 4096);
    t.sort_unstable();
    t.dedup();
    Ok(t)
}

fn copy_files(from: &Path, to: &Path) -> std::io::Result<()> {
    let _ = std::fs::remove_dir_all(to);
    std::fs::create_dir_all(to)?;
    for e in ["key", "val", "htx"] {
        std::fs::copy(from.join(format!("m.{e}")), to.join(format!("m.{e}")))?;
    }
    Ok(())
}

fn snapshot_equals_model(dir: &Path, snap: &Path, model: &Model) -> Result<(), String> {
    copy_files(dir, snap).map_err(|e| format!("HARNESS snapshot: {e}"))?;
    let img = Image::read(snap, "m").map_err(|e| format!("HARNESS {e}"))?;
    let dec = decoder::decode(&img, Some(DbBytes::SIG));
    if let Some(p) = dec.problems.first() {
        return Err(format!("snapshot does not decode: {:?}: {}", p.group, p.what));
    }
    if let Some(m) = decoder::contents_mismatch(&img, &dec, model) {
        return Err(format!("snapshot decodes to other contents: {m}"));
    }
    // and through the crate itself
    let r = guarded(crate::session::STEP_BUDGET_BASE, || -> Result<(), String> {
        let db = abyssiniandb::open_file(snap).map_err(|e| e.to_string())?;
        let mut m = db.db_map_bytes("m").map_err(|e| e.to_string())?;
        if m.len().map_err(|e| e.to_string())? != model.len() as u64 {
            return Err("len differs".into());
        }
        for (k, v) in model.iter() {
            if m.get(&k[..]).map_err(|e| e.to_string())?.as_ref() != Some(v) {
                return Err(format!("key {} differs", crate::util::show_bytes(k)));
            }
        }
        Ok(())
    });
    let _ = std::fs::remove_dir_all(snap);
    match r {
        Guard::Ok(Ok(())) => Ok(()),
        Guard::Ok(Err(m)) => Err(format!("snapshot opened by the crate: {m}")),
        Guard::Hang(m) | Guard::Panic(m) => Err(format!("snapshot does not open: {m}")),
    }
}

fn one_threshold(a: &Args, shape: u32, seed: u64, t: u64, kind: u32, between: u32, retry_flush: bool, variant: u32, ctx: &mut Ctx) -> Result<bool, String> {
    let dir = a.scratch.join("c16");
    let snap = a.scratch.join("c16snap");
    let mut b = build(&dir, shape, seed).map_err(|e| format!("HARNESS build: {e}"))?;
    let kind_name = ["flush", "sync_all", "sync_data", "db_sync_all", "db_sync_data"][kind as usize % 5];
    hooks::record_io_events(true);
    let _ = hooks::take_io_events();
    // variant 1: an iterator over the map is alive (created, advanced once) during the failing call; it is not advanced
    // again and is dropped when the case ends. variant 2 (database-level calls): every handle of the map is dropped
    // before the call - the database object still holds the map and its unsaved updates.
    let live_iter = if variant == 1 {
        use abyssiniandb::DbMap;
        let mut it = b.map().iter();
        let _ = it.next();
        ctx.count("fault_with_live_iterator", 1);
        Some(it)
    } else {
        None
    };
    if variant == 2 && kind % 5 >= 3 {
        b.map_opt = None;
        b.other = None;
        ctx.count("fault_with_all_handles_dropped", 1);
    }
    // variant 3: a read_fill_buffer (read-only) sits between the updates and the failing call.
    // variant 4: the failing call and everything after it go through the second handle of the map (the updates went
    // through the first one)
    if variant == 3 {
        let _ = guarded(crate::session::STEP_BUDGET_BASE, || b.map().read_fill_buffer());
        ctx.count("fault_after_read_fill_buffer", 1);
    }
    if variant == 4 {
        std::mem::swap(&mut b.map_opt, &mut b.other);
        ctx.count("fault_through_second_handle", 1);
    }
    // ---- the fault: soft limit down, call, (reads), limit up
    if !crate::sys::set_fsize_soft(t) {
        hooks::record_io_events(false);
        return Err("HARNESS setrlimit failed".into());
    }
    let r = guarded(crate::session::STEP_BUDGET_BASE, || match kind % 5 {
        0 => b.map().flush(),
        1 => b.map().sync_all(),
        2 => b.map().sync_data(),
        3 => b.db.sync_all(),
        _ => b.db.sync_data(),
    });
    let ev = hooks::take_io_events();
    // reads while the condition holds
    let mut reads_ok = 0u64;
    let mut reads_err = 0u64;
    let mut wrong: Option<String> = None;
    let keys_copy = b.keys.clone();
    for k in keys_copy.iter().step_by(3) {
        let rr = guarded(crate::session::STEP_BUDGET_BASE, || b.map().get(&k[..]));
        match rr {
            Guard::Ok(Ok(v)) => {
                reads_ok += 1;
                if v != b.model.get(k).cloned() {
                    wrong = Some(format!("while the limit holds, get({}) returns Ok with a value other than the model's", crate::util::show_bytes(k)));
                    break;
                }
            }
            Guard::Ok(Err(_)) => reads_err += 1,
            Guard::Hang(m) | Guard::Panic(m) => {
                wrong = Some(format!("FOREIGN get panicked under the limit: {m}"));
                break;
            }
        }
    }
    crate::sys::set_fsize_soft(crate::sys::RLIM_INFINITY);
    let _ = hooks::take_io_events();
    ctx.count("reads_under_fault.ok", reads_ok);
    ctx.count("reads_under_fault.err", reads_err);
    let ctxs = format!("[shape {shape}, limit {t} bytes, {kind_name}, then {}{}]", ["", "a delete and ", "an overwrite and "][between as usize % 3], if retry_flush { "flush" } else { "sync_data" });
    if let Some(w) = wrong {
        hooks::record_io_events(false);
        return Err(format!("{ctxs} {w}"));
    }
    let refused: Vec<&hooks::IoEvent> = ev.iter().filter(|e| !e.ok).collect();
    let refused_any = !refused.is_empty();
    let call_ok = match &r {
        Guard::Ok(Ok(())) => true,
        Guard::Ok(Err(e)) => {
            ctx.count(&format!("error_kind.{:?}", e.kind()), 1);
            false
        }
        Guard::Hang(m) | Guard::Panic(m) => {
            hooks::record_io_events(false);
            return Err(format!("FOREIGN {ctxs} the call panicked: {m}"));
        }
    };
    if call_ok {
        ctx.count("call_ok", 1);
        // Ok => durable: the snapshot taken right now opens to the model (whether or not a refusal was seen)
        if let Err(m) = snapshot_equals_model(&dir, &snap, &b.model) {
            hooks::record_io_events(false);
            return Err(if m.starts_with("HARNESS") { m } else { format!("{ctxs} the call returned Ok but {m}") });
        }
    } else {
        ctx.count("call_err", 1);
    }
    if let Some(first) = refused.first() {
        ctx.count(&format!("first_refused.{}", first.file), 1);
        ctx.count("thresholds_with_refusal", 1);
        if call_ok {
            hooks::record_io_events(false);
            return Err(format!("{ctxs} the operating system refused a write to the .{} file during the call, yet the call returned Ok", first.file));
        }
    } else {
        ctx.count("thresholds_without_refusal", 1);
    }
    // ---- the condition is lifted: the in-memory view is fully correct
    for k in keys_copy.iter() {
        match guarded(crate::session::STEP_BUDGET_BASE, || b.map().get(&k[..])) {
            Guard::Ok(Ok(v)) if v == b.model.get(k).cloned() => {}
            Guard::Ok(Ok(_)) => {
                hooks::record_io_events(false);
                return Err(format!("{ctxs} after the limit is lifted get({}) returns a wrong value (the failed flush lost or damaged it)", crate::util::show_bytes(k)));
            }
            Guard::Ok(Err(e)) => {
                hooks::record_io_events(false);
                return Err(format!("{ctxs} after the limit is lifted get({}) returns Err({e})", crate::util::show_bytes(k)));
            }
            Guard::Hang(m) | Guard::Panic(m) => {
                hooks::record_io_events(false);
                return Err(format!("{ctxs} after the limit is lifted get panicked: {m}"));
            }
        }
    }
    match guarded(crate::session::STEP_BUDGET_BASE, || b.map().len()) {
        Guard::Ok(Ok(l)) if l == b.model.len() as u64 => {}
        other => {
            hooks::record_io_events(false);
            return Err(format!("{ctxs} after the limit is lifted len() is {:?}, model {}", match other { Guard::Ok(x) => format!("{x:?}"), _ => "panic".into() }, b.model.len()));
        }
    }
    // the recovering flush must make every update durable: with nothing in between (it alone), or after one more
    // update made between the failed attempt and the retry (a delete, or an overwrite that relocates)
    if between > 0 && !call_ok {
        let victim = b.keys.iter().find(|k| b.model.contains_key(*k)).cloned();
        if let Some(k) = victim {
            let rr = guarded(crate::session::STEP_BUDGET_BASE, || -> std::io::Result<()> {
                if between == 1 {
                    b.map().delete(&k[..]).map(|_| ())
                } else {
                    b.map().put(&k[..], &crate::util::gen_bytes(2222, 5, 0))
                }
            });
            match rr {
                Guard::Ok(Ok(())) => {
                    if between == 1 {
                        b.model.remove(&k);
                    } else {
                        b.model.insert(k.clone(), crate::util::gen_bytes(2222, 5, 0));
                    }
                    ctx.count(if between == 1 { "update_between_failure_and_retry.delete" } else { "update_between_failure_and_retry.put" }, 1);
                }
                Guard::Ok(Err(e)) => {
                    hooks::record_io_events(false);
                    return Err(format!("{ctxs} an update after the limit was lifted returns Err({e})"));
                }
                Guard::Hang(m) | Guard::Panic(m) => {
                    hooks::record_io_events(false);
                    return Err(format!("FOREIGN {ctxs} an update after the limit was lifted panicked: {m}"));
                }
            }
        }
    }
    let _ = hooks::take_io_events();
    let r1 = guarded(crate::session::STEP_BUDGET_BASE, || if retry_flush { b.map().flush() } else { b.map().sync_data() });
    let _ = hooks::take_io_events();
    match r1 {
        Guard::Ok(Ok(())) => {}
        Guard::Ok(Err(e)) => {
            hooks::record_io_events(false);
            return Err(format!("{ctxs} the flush after the limit was lifted returns Err({e})"));
        }
        Guard::Hang(m) | Guard::Panic(m) => {
            hooks::record_io_events(false);
            return Err(format!("{ctxs} the flush after the limit was lifted panicked: {m}"));
        }
    }
    if let Err(m) = snapshot_equals_model(&dir, &snap, &b.model) {
        hooks::record_io_events(false);
        return Err(if m.starts_with("HARNESS") { m } else { format!("{ctxs} once the limit is lifted a flush returns Ok, but {m}") });
    }
    // a few more updates and another flush: everything durable again, every file flushed
    for (i, k) in keys_copy.iter().enumerate().take(5) {
        let v = crate::util::gen_bytes(33 + i, 7000 + i as u32, 0);
        b.map().put(&k[..], &v).map_err(|e| format!("{ctxs} put after the fault: {e}"))?;
        b.model.insert(k.clone(), v);
    }
    let _ = hooks::take_io_events();
    let r2 = guarded(crate::session::STEP_BUDGET_BASE, || b.map().flush());
    let ev2 = hooks::take_io_events();
    hooks::record_io_events(false);
    match r2 {
        Guard::Ok(Ok(())) => {}
        Guard::Ok(Err(e)) => return Err(format!("{ctxs} a later flush returns Err({e})")),
        Guard::Hang(m) | Guard::Panic(m) => return Err(format!("{ctxs} a later flush panicked: {m}")),
    }
    for f in ["key", "val", "htx"] {
        if !ev2.iter().any(|e| e.file == f && e.ok) {
            return Err(format!("{ctxs} the flush after further updates did not flush the .{f} file (events: {})", ev2.iter().map(|e| format!("{}:{}", e.file, e.ok)).collect::<Vec<_>>().join(" ")));
        }
    }
    if let Err(m) = snapshot_equals_model(&dir, &snap, &b.model) {
        return Err(if m.starts_with("HARNESS") { m } else { format!("{ctxs} after further updates and a successful flush {m}") });
    }
    ctx.count("recoveries_verified", 1);
    drop(live_iter);
    drop(b);
    let _ = std::fs::remove_dir_all(&dir);
    Ok(refused_any)
}

/// A write refusal inside an *update* call: the value buffer is small, so a put of a value larger than the buffer writes
/// to the file at once; RLIMIT_FSIZE is lowered so that this write is refused in the middle of the new record. The
/// put may fail; what the key then holds is re-read from the map. Afterwards (limit lifted) the map is used further,
/// flushed and closed: the files must still decode to a consistent structure (`--as C05`), every slot must still be
/// used or free and the slots must tile the files (`--as C06`), and the map must still hold what its calls said.
pub fn faultput(a: &Args) -> Ctx {
    let prop: &'static str = if a.get("as") == Some("C06") { "C06" } else { "C05" };
    let mut ctx = Ctx::new(prop, &[prop], &a.replay_dir, &a.shard_name());
    crate::sys::ignore_sigxfsz();
    let mut rng = Rng::new(a.shard_seed() ^ 0xFA17);
    let cases = a.get_u64("cases", 12);
    for case in 0..cases {
        ctx.evaluations += 1;
        let dir = a.scratch.join("fput");
        let _ = std::fs::remove_dir_all(&dir);
        let which_key = case % 3 == 2; // the refused write hits the key file (a key longer than the key buffer)
        let cfg = Cfg { buckets: Buckets::Size(*rng.pick(&[1u64, 8, 64])), key: if which_key { Buf::Size(0) } else { Buf::PerMille(1000) }, val: Buf::Size(*rng.pick(&[0u32, 8192, 262144])), htx: Buf::PerMille(1000) };
        let r: Result<(), String> = (|| {
            let mut s = Session::<DbBytes>::create(&dir, "m", &cfg)?;
            let mon = Mon::default();
            let mut keys: Vec<Vec<u8>> = (0..30u32).map(|i| format!("k{i:05}").into_bytes()).collect();
            if which_key {
                keys.push(crate::util::gen_bytes(600_000, 5, 1));
            }
            let big_k = keys.len() - 1;
            let mut bits = Rng::new(case + 3);
            for k in 0..20usize {
                let op = Op::Put(k, ValSpec { len: *rng.pick(&[10u32, 100, 1100, 5000, 70_000]), seed: k as u32, kind: 0 });
                s.apply(k, &op, &keys, &mon, &mut ctx, bits.next()).map_err(|f| format!("FOREIGN {}", f.msg))?;
            }
            let _ = s.apply(20, &Op::Flush, &keys, &mon, &mut ctx, bits.next());
            // the refused write: somewhere inside the record that is appended now
            let flen = |ext: &str| std::fs::metadata(dir.join(format!("m.{ext}"))).map(|m| m.len()).unwrap_or(0);
            let (file_len, big_len) = if which_key { (flen("key"), 600_000u64) } else { (flen("val"), 1 << 20) };
            let limit = file_len + rng.range(1, big_len - 1);
            let victim = if which_key { big_k } else { rng.below(25) as usize };
            let vlen = if which_key { 50 } else { 1 << 20 };
            if !crate::sys::set_fsize_soft(limit) {
                return Err("HARNESS setrlimit failed".into());
            }
            let v = crate::util::gen_bytes(vlen, 77, 0);
            let kk = keys[victim].clone();
            let pr = guarded(crate::session::STEP_BUDGET_BASE, || s.map.as_mut().unwrap().put(&kk[..], &v));
            crate::sys::set_fsize_soft(crate::sys::RLIM_INFINITY);
            match pr {
                Guard::Ok(Ok(())) => {
                    ctx.count("faulted_put.ok", 1);
                }
                Guard::Ok(Err(_)) => ctx.count("faulted_put.err", 1),
                Guard::Hang(m) | Guard::Panic(m) => {
                    ctx.count("faulted_put.panicked", 1);
                    return Err(format!("FOREIGN the put under the limit panicked: {m}"));
                }
            }
            if !s.resync_key(&kk) {
                return Err("FOREIGN the key of the failed put cannot be read afterwards".into());
            }
            // life goes on
            for (j, k) in (20..30usize).chain(0..6).enumerate() {
                let op = if j % 4 == 3 { Op::Del(k) } else { Op::Put(k, ValSpec { len: *rng.pick(&[10u32, 1100, 5000, 70_000, 300_000]), seed: 100 + j as u32, kind: 0 }) };
                s.apply(30 + j, &op, &keys, &mon, &mut ctx, bits.next()).map_err(|f| format!("FOREIGN after the failed put: {}", f.msg))?;
            }
            s.apply(60, &Op::Flush, &keys, &mon, &mut ctx, bits.next()).map_err(|f| format!("FOREIGN {}", f.msg))?;
            s.close();
            let dmon = Mon { decode_at_close: true, ..Default::default() };
            s.decode_checkpoint(61, &dmon, &mut ctx, "close").map_err(|f| format!("after a put that was refused in the middle of its record ({} file, limit {limit}, file length before {file_len}), further updates, flush and close: {}", if which_key { "key" } else { "value" }, f.msg))?;
            if let Ok(img) = s.image() {
                let d = img.digest();
                ctx.digests.insert(d);
                ctx.nontrivial.insert(d);
            }
            Ok(())
        })();
        crate::sys::set_fsize_soft(crate::sys::RLIM_INFINITY);
        let _ = std::fs::remove_dir_all(&dir);
        if let Err(m) = r {
            if m.starts_with("HARNESS") {
                ctx.inconclusive.push(m);
            } else {
                let owners: &'static [&'static str] = if m.starts_with("FOREIGN") { &["C01"] } else { &["C05", "C06"] };
                let st = ctx.classify(finding(owners, "faulted_update", case as usize, m));
                let v = matches!(st, Stop::Violation(_));
                ctx.record_stop(st, None);
                if v {
                    return ctx;
                }
            }
        }
    }
    ctx
}

pub fn run(a: &Args) -> Ctx {
    // `--as C03`: the same fault workload judged for C03 ("whenever a flush/sync returns Ok the files hold every
    // update", which includes the flush that follows a failed one); only the Ok-but-not-durable findings count then
    let as_c03 = a.get("as") == Some("C03");
    let mut ctx = if as_c03 { Ctx::new("C03", &["C03"], &a.replay_dir, &a.shard_name()) } else { Ctx::new("C16", &["C16"], &a.replay_dir, &a.shard_name()) };
    crate::sys::ignore_sigxfsz();
    let cap = a.get_u64("grid_cap", 24) as usize;
    let mut job = 0usize;
    for shape in 0..3u32 {
        let seed = a.seed * 77 + shape as u64;
        let ts = match thresholds(&a.scratch.join("c16plan"), shape, seed, a.thorough, cap) {
            Ok(t) => t,
            Err(e) => {
                ctx.inconclusive.push(e);
                return ctx;
            }
        };
        ctx.count(&format!("thresholds_enumerated.shape{shape}"), ts.len() as u64);
        // every threshold x every kind of call x what happens between the failed attempt and the retry x kind of retry
        for (i, &t) in ts.iter().enumerate() {
          for kind in 0..5u32 {
            for between in 0..3u32 {
              for retry_flush in [true, false] {
               for variant in 0..5u32 {
                if variant == 2 && kind < 3 {
                    continue;
                }
            job += 1;
            if job % a.nshards != a.shard {
                continue;
            }
            ctx.evaluations += 1;
            ctx.digests.insert(((shape as u64) << 48) | t);
            let r = one_threshold(a, shape, seed, t, kind, between, retry_flush, variant, &mut ctx);
            crate::sys::set_fsize_soft(crate::sys::RLIM_INFINITY);
            if ctx.samples.len() < 3 && (job / a.nshards) % 97 == 1 {
                let mut s = J::obj();
                s.set("shape", J::s(["big values: .val largest", "long keys: .key largest", "big table: .htx largest"][shape as usize]));
                s.set("limit_bytes", J::u(t));
                s.set("call", J::s(["flush", "sync_all", "sync_data", "db_sync_all", "db_sync_data"][kind as usize]));
                s.set("between_failure_and_retry", J::s(["nothing", "a delete", "an overwrite"][between as usize]));
                s.set("outcome", J::s(match &r { Ok(rf) => format!("held (write refusal observed: {rf})"), Err(m) => m.clone() }));
                ctx.samples.push(s);
            }
            if let Ok(true) = r {
                ctx.nontrivial.insert(((shape as u64) << 48) | t);
            }
            if let Err(m) = r {
                if m.starts_with("HARNESS") {
                    ctx.inconclusive.push(m);
                } else {
                    let owners: &'static [&'static str] = if m.starts_with("FOREIGN") {
                        &["C01"]
                    } else if m.contains("returned Ok but ") || m.contains("a flush returns Ok, but ") || m.contains("a successful flush ") {
                        &["C16", "C03"]
                    } else {
                        &["C16"]
                    };
                    let st = ctx.classify(finding(owners, "fault", i, m));
                    let v = matches!(st, Stop::Violation(_));
                    ctx.record_stop(st, None);
                    if v {
                        return ctx;
                    }
                }
            }
               }
              }
            }
          }
        }
    }
    ctx
}
