//! C03: flush/sync durability. Every sync call site is a crash point.
use super::hist_check::spawn_verify;
use super::*;
use crate::session::{Guard, Model};
use abyssiniandb::verif_hooks as hooks;
use abyssiniandb::{DbString, DbU64, DbXxx};

fn c03_profile(rng: &mut Rng, n_ops: usize) -> Profile {
    let mut p = Profile::base(*rng.pick(&[5usize, 40, 200]), n_ops);
    p.w_sync = *rng.pick(&[5u32, 12, 40]);
    p.max_val = 6000;
    p.max_key = 300;
    // periods of deletes only / overwrites only come from the phase bias of the generator
    p
}

/// insert overwrite-only and delete-only windows between two syncs (dirty flag variants)
/// `wrap_window`: additionally exactly 2^16 updates between two sync points at the end of the history (and 2^8 near the
/// start): a bookkeeping of "updates since the last flush" in a narrow counter must not wrap onto "clean"
fn add_windows(h: &mut History, rng: &mut Rng, wrap_window: bool) {
    let nk = h.keys.len().max(1);
    let mut extra: Vec<Op> = Vec::new();
    // created-only case: first sync before any update
    if rng.chance(1, 2) {
        extra.push(rng.pick(&[Op::Flush, Op::SyncAll, Op::SyncData, Op::DbSyncAll, Op::DbSyncData]).clone());
    }
    for k in 0..nk.min(12) {
        extra.push(Op::Put(k, ValSpec { len: 20, seed: k as u32, kind: 0 }));
    }
    extra.push(Op::SyncAll);
    // overwrite-only window
    for k in 0..nk.min(4) {
        extra.push(Op::Put(k, ValSpec { len: 20, seed: 100 + k as u32, kind: 0 }));
    }
    extra.push(rng.pick(&[Op::Flush, Op::SyncData, Op::DbSyncData]).clone());
    // delete-only window
    for k in 0..nk.min(3) {
        extra.push(Op::Del(k));
    }
    extra.push(rng.pick(&[Op::Flush, Op::SyncAll, Op::DbSyncAll]).clone());
    // single overwrite that grows the value (relocation) then flush
    extra.push(Op::Put(nk.min(12) - 1, ValSpec { len: 700, seed: 5, kind: 0 }));
    extra.push(Op::Flush);
    // regression D8: an update, a flush, then a sync (the flush must not make the sync a no-op)
    extra.push(Op::Put(0, ValSpec { len: 9, seed: 6, kind: 0 }));
    extra.push(Op::Flush);
    extra.push(rng.pick(&[Op::SyncAll, Op::SyncData, Op::DbSyncAll, Op::DbSyncData]).clone());
    // exactly 2^8 updates between two sync points
    for j in 0..256u32 {
        extra.push(Op::Put(j as usize % nk.min(3), ValSpec { len: 4, seed: j, kind: 0 }));
    }
    extra.push(Op::Flush);
    extra.extend(h.ops.drain(..));
    if wrap_window {
        for (n, first, last) in [(65_536u32, Op::SyncData, Op::Flush), (65_535, Op::Flush, Op::Flush), (65_536, Op::Flush, Op::DbSyncData)] {
            extra.push(first);
            for j in 0..n {
                extra.push(Op::Put(j as usize % nk.min(2), ValSpec { len: 5, seed: j, kind: 0 }));
            }
            extra.push(last);
        }
    }
    h.ops = extra;
}

struct Side {
    /// None while every handle of the map is dropped (the database object keeps the map open)
    u: Option<abyssiniandb::filedb::FileDbMapDbU64>,
    um: Model,
    u_dirty: bool,
    s: Option<abyssiniandb::filedb::FileDbMapDbString>,
    sm: Model,
    s_dirty: bool,
}

fn copy_dir(from: &Path, to: &Path) -> std::io::Result<()> {
    let _ = std::fs::remove_dir_all(to);
    std::fs::create_dir_all(to)?;
    for e in std::fs::read_dir(from)? {
        let e = e?;
        std::fs::copy(e.path(), to.join(e.file_name()))?;
    }
    Ok(())
}

/// open a snapshot directory with a fresh FileDb and compare map `name` with `model` (API + decoder)
fn verify_snapshot<K: Kt>(snap: &Path, name: &str, model: &Model, keys: &[Vec<u8>], ctx: &mut Ctx, at: usize, what: &str) -> Result<(), crate::session::Finding> {
    let img = Image::read(snap, name).map_err(|e| finding(&["C03"], "snapshot", at, format!("{what}: files of map {name} missing in the snapshot: {e}")))?;
    let dec = decoder::decode(&img, Some(K::SIG));
    ctx.count("snapshot.decoded", 1);
    if let Some(p) = dec.problems.first() {
        return Err(finding(&["C03"], "snapshot", at, format!("{what}: snapshot of map {name} does not decode: {:?}: {}", p.group, p.what)));
    }
    if let Some(m) = decoder::contents_mismatch(&img, &dec, model) {
        return Err(finding(&["C03"], "snapshot", at, format!("{what}: snapshot of map {name} decodes to other contents: {m}")));
    }
    let mut s = Session::<K>::attach(snap, name, model.clone(), model.len());
    if let Err(e) = s.open(&Cfg::small(8)) {
        return Err(finding(&["C03"], "snapshot", at, format!("{what}: snapshot of map {name} does not open: {e}")));
    }
    let r = s.full_compare(at, keys, &["C03"], &format!("in the snapshot taken at {what}"), ctx);
    s.close();
    ctx.count("snapshot.opened", 1);
    let d = img.digest();
    ctx.digests.insert(d);
    if !model.is_empty() {
        ctx.nontrivial.insert(d);
    }
    r
}

fn expected_kind(op: &Op) -> hooks::IoKind {
    match op {
        Op::Flush => hooks::IoKind::Flush,
        Op::SyncAll | Op::DbSyncAll => hooks::IoKind::SyncAll,
        _ => hooks::IoKind::SyncData,
    }
}

fn c03_history<K: Kt>(a: &Args, h: &History, ctx: &mut Ctx, rng: &mut Rng) -> Option<Stop> {
    let dir = a.scratch.join("c03");
    let snap = a.scratch.join("c03snap");
    let _ = std::fs::remove_dir_all(&dir);
    let mon = Mon::default();
    let mut s = match Session::<K>::create(&dir, "m", &h.cfg) {
        Ok(s) => s,
        Err(e) => return Some(ctx.classify(finding(&["C07"], "create", 0, e))),
    };
    let db = s.db.clone().unwrap();
    // side maps: one u64 map with updates, one string map that is only created (never updated) half of the time
    let with_side = rng.chance(2, 3);
    // half of the time the side maps are created only after the first database-level sync has happened
    let late_side = with_side && rng.chance(1, 2);
    let make_side = |db: &abyssiniandb::filedb::FileDb| -> Side {
        let u = db.db_map_u64_with_params("side_u", Cfg::small(16).params()).unwrap();
        let sm = db.db_map_string_with_params("side_s", Cfg::small(4).params()).unwrap();
        Side { u: Some(u), um: Model::new(), u_dirty: false, s: Some(sm), sm: Model::new(), s_dirty: false }
    };
    let mut side: Option<Side> = if with_side && !late_side { Some(make_side(&db)) } else { None };
    let only_created = rng.chance(1, 2);
    // a map that was only created has no *updates* yet: no sync request is demanded for it (its files must
    // still be valid in the snapshot, which the snapshot monitor checks)
    let mut primary_dirty = false; // updates since the last flush or sync (demanded of flush)
    let mut primary_unsynced = false; // updates since the last sync_all/sync_data: a flush in between does not clear it
    let mut bits = Rng::new(11);
    let mut second = match K::open(&db, "m", h.cfg.params()) {
        Ok(m) => m,
        Err(e) => return Some(Stop::Harness(format!("second handle: {e}"))),
    };
    {
        use abyssiniandb::DbXxxBase;
        let _ = second.flush();
    }
    hooks::record_io_events(true);
    let _ = hooks::take_io_events();
    for (i, op) in h.ops.iter().enumerate() {
        // occasional updates on the side maps
        if let Some(sd) = side.as_mut() {
            if i % 7 == 3 {
                let x = bits.below(50);
                let v = crate::util::gen_bytes((x % 40) as usize, x as u32, 0);
                if sd.u.is_none() {
                    sd.u = Some(db.db_map_u64_with_params("side_u", Cfg::small(16).params()).unwrap());
                }
                if bits.chance(3, 4) {
                    sd.u.as_mut().unwrap().put(&x, &v).unwrap();
                    sd.um.insert(x.to_le_bytes().to_vec(), v);
                    sd.u_dirty = true;
                } else {
                    let _ = sd.u.as_mut().unwrap().delete(&x).unwrap();
                    if sd.um.remove(&x.to_le_bytes().to_vec()).is_some() {
                        sd.u_dirty = true;
                    }
                }
            }
            if !only_created && i % 31 == 5 {
                let k = format!("s{}", bits.below(9));
                sd.s.as_mut().unwrap().put_string(k.as_str(), "v").unwrap();
                sd.sm.insert(k.into_bytes(), b"v".to_vec());
                sd.s_dirty = true;
            }
        }
        // an update is a call that changes the map (deleting an absent key is none)
        let changes = match op {
            Op::Del(k) | Op::DelStr(k) => s.model.contains_key(&h.keys[*k]),
            Op::BulkDel(ks) | Op::BulkDelStr(ks) => ks.iter().any(|k| s.model.contains_key(&h.keys[*k])),
            Op::BulkPut(v) | Op::BulkPutStr(v) | Op::PutIter(v) => !v.is_empty(),
            o => o.is_update(),
        };
        if changes {
            primary_dirty = true;
            primary_unsynced = true;
        }
        if op.is_sync() {
            let _ = hooks::take_io_events();
            // before half of the database-level syncs every handle of the updated side map is dropped: the database
            // object still holds the map, and its updates are as much "preceding updates" as any other
            if matches!(op, Op::DbSyncAll | Op::DbSyncData) && bits.chance(1, 2) {
                if let Some(sd) = side.as_mut() {
                    if sd.u.take().is_some() {
                        ctx.count("db_sync_with_all_handles_of_a_dirty_map_dropped", sd.u_dirty as u64);
                    }
                }
            }
        }
        // one map-level sync in four is issued through a second handle of the map (a lookup of its own that flushed once
        // while the map was clean; all updates go through the first handle), one in four is preceded by a
        // read_fill_buffer
        let through_second = op.is_sync() && !matches!(op, Op::DbSyncAll | Op::DbSyncData) && bits.chance(1, 4);
        if op.is_sync() && bits.chance(1, 4) {
            if let Err(f) = s.apply(i, &Op::ReadFill, &h.keys, &mon, ctx, bits.next()) {
                hooks::record_io_events(false);
                return Some(ctx.classify(f));
            }
            let _ = hooks::take_io_events();
            ctx.count("sync_after_read_fill_buffer", 1);
        }
        if through_second {
            use abyssiniandb::DbXxxBase;
            let r = crate::session::guarded(crate::session::STEP_BUDGET_BASE, || match op {
                Op::Flush => second.flush(),
                Op::SyncAll => second.sync_all(),
                _ => second.sync_data(),
            });
            ctx.count("sync_through_second_handle", 1);
            if !matches!(r, Guard::Ok(Ok(()))) {
                hooks::record_io_events(false);
                return Some(ctx.classify(finding(&["C01"], "result", i, format!("{} through a second handle failed", op.kind_name()))));
            }
        } else if let Err(f) = s.apply(i, op, &h.keys, &mon, ctx, bits.next()) {
            hooks::record_io_events(false);
            return Some(ctx.classify(f));
        }
        if !op.is_sync() {
            continue;
        }
        // ---- the call returned Ok: this is a crash point
        let what = format!("{} (call {i})", op.kind_name());
        ctx.count(&format!("sync_site.{}", op.kind_name()), 1);
        let ev = hooks::take_io_events();
        let db_level = matches!(op, Op::DbSyncAll | Op::DbSyncData);
        // E3: the OS was asked to sync each file of every map with unsynced updates
        let is_flush = matches!(op, Op::Flush);
        let mut dirty_maps = 0usize;
        if (is_flush && primary_dirty) || (!is_flush && primary_unsynced) {
            dirty_maps += 1;
        }
        if db_level {
            if let Some(sd) = side.as_ref() {
                dirty_maps += sd.u_dirty as usize + sd.s_dirty as usize;
            }
        }
        let kind = expected_kind(op);
        for f in ["key", "val", "htx"] {
            let n = ev.iter().filter(|e| e.file == f && e.kind == kind && e.ok).count();
            ctx.count(&format!("io_events.{f}.{kind:?}"), n as u64);
            if n < dirty_maps {
                hooks::record_io_events(false);
                let msg = format!("{what}: {dirty_maps} map(s) had updates since their last sync but only {n} successful {kind:?} request(s) reached a .{f} file (events: {})", ev.iter().map(|e| format!("{}:{:?}:{}", e.file, e.kind, e.ok)).collect::<Vec<_>>().join(" "));
                return Some(ctx.classify(finding(&["C03"], "io_request", i, msg)));
            }
        }
        // E1: byte copy of the directory with all handles alive
        if let Err(e) = copy_dir(&dir, &snap) {
            hooks::record_io_events(false);
            return Some(Stop::Harness(format!("snapshot copy failed: {e}")));
        }
        hooks::record_io_events(false);
        let mut r = verify_snapshot::<K>(&snap, "m", &s.model, &h.keys, ctx, i, &what);
        if r.is_ok() && db_level {
            if let Some(sd) = side.as_ref() {
                let ukeys: Vec<Vec<u8>> = (0..50u64).map(|x| x.to_le_bytes().to_vec()).collect();
                r = verify_snapshot::<DbU64>(&snap, "side_u", &sd.um, &ukeys, ctx, i, &what);
                if r.is_ok() {
                    let skeys: Vec<Vec<u8>> = (0..9).map(|x| format!("s{x}").into_bytes()).collect();
                    r = verify_snapshot::<DbString>(&snap, "side_s", &sd.sm, &skeys, ctx, i, &what);
                    if only_created {
                        ctx.count("snapshot.created_only_map", 1);
                    }
                }
            }
        }
        hooks::record_io_events(true);
        if let Err(f) = r {
            hooks::record_io_events(false);
            return Some(ctx.classify(f));
        }
        primary_dirty = false;
        if !is_flush {
            primary_unsynced = false;
        }
        if db_level {
            if let Some(sd) = side.as_mut() {
                sd.u_dirty = false;
                sd.s_dirty = false;
            }
            if late_side && side.is_none() {
                side = Some(make_side(&db));
                ctx.count("side_maps_created_after_db_sync", 1);
            }
        }
    }
    hooks::record_io_events(false);
    drop(side);
    drop(db);
    s.close();
    let _ = std::fs::remove_dir_all(&dir);
    let _ = std::fs::remove_dir_all(&snap);
    None
}

/// SIGKILL variant: for every sync site j of the history a child runs up to j, performs the call and kills itself
fn c03_kills<K: Kt>(a: &Args, h: &History, ctx: &mut Ctx, max_sites: usize) -> Option<Stop> {
    let sites: Vec<usize> = h.ops.iter().enumerate().filter(|(_, o)| o.is_sync()).map(|(i, _)| i).collect();
    let hpath = a.scratch.join("c03_history.replay");
    if std::fs::write(&hpath, h.to_text("C03", None, "")).is_err() {
        return Some(Stop::Harness("cannot write history".into()));
    }
    let exe = std::env::current_exe().ok()?;
    let step = (sites.len() / max_sites.max(1)).max(1);
    for &j in sites.iter().step_by(step) {
        let dir = a.scratch.join("c03k");
        let _ = std::fs::remove_dir_all(&dir);
        let mpath = a.scratch.join("c03k_model.txt");
        let _ = std::fs::remove_file(&mpath);
        let st = std::process::Command::new(&exe)
            .args(["c03-child", "--history", &hpath.to_string_lossy(), "--kill-at", &j.to_string(), "--dir", &dir.to_string_lossy(), "--model", &mpath.to_string_lossy(), "--scratch", &a.scratch.join("c03kc").to_string_lossy()])
            .output();
        let st = match st {
            Ok(s) => s,
            Err(e) => return Some(Stop::Harness(format!("spawn: {e}"))),
        };
        use std::os::unix::process::ExitStatusExt;
        if st.status.signal() != Some(9) {
            // the child reports a failing call before the kill point with exit code 3
            let out = String::from_utf8_lossy(&st.stdout).to_string();
            if st.status.code() == Some(3) {
                return Some(ctx.classify(finding(&["C01"], "child_call_failed", j, out)));
            }
            return Some(Stop::Harness(format!("c03 child for site {j} did not end by SIGKILL: {:?} {out} {}", st.status, String::from_utf8_lossy(&st.stderr))));
        }
        ctx.count("kills_performed", 1);
        ctx.count(&format!("kill_site.{}", h.ops[j].kind_name()), 1);
        // the directory left behind must open to the state at the call
        let other = Cfg::small(8);
        let model_text = std::fs::read_to_string(&mpath).unwrap_or_default();
        let mut model = Model::new();
        for l in model_text.lines() {
            let p: Vec<&str> = l.split(' ').collect();
            if p[0] == "kv" {
                model.insert(crate::util::unhex(p[1]).unwrap_or_default(), crate::util::unhex(p.get(2).unwrap_or(&"")).unwrap_or_default());
            }
        }
        let r = verify_snapshot::<K>(&dir, "m", &model, &h.keys, ctx, j, &format!("{} (call {j}) followed by SIGKILL", h.ops[j].kind_name()));
        if let Err(f) = r {
            return Some(ctx.classify(f));
        }
        // and in a fresh process too (first site only, cheap sanity of the spawn path)
        if j == sites[0] {
            if let Err(m) = spawn_verify(a, &dir, "m", K::NAME, &other, &model, &h.keys) {
                if m.starts_with("HARNESS") {
                    return Some(Stop::Harness(m));
                }
                return Some(ctx.classify(finding(&["C03"], "snapshot", j, format!("directory left by SIGKILL after {}: {m}", h.ops[j].kind_name()))));
            }
        }
        let _ = std::fs::remove_dir_all(&dir);
    }
    None
}

/// one write(2) syscall per marker line (eprintln! would split it)
fn mark(s: &str) {
    use std::io::Write;
    let _ = std::io::stderr().write_all(s.as_bytes());
}

/// child of the SIGKILL variant (also used under strace with --markers 1, where it does not kill itself
/// but brackets every sync call with marker writes to stderr)
pub fn c03_child(a: &Args) -> i32 {
    let Some(text) = a.get("history").and_then(|p| std::fs::read_to_string(p).ok()) else { return 2 };
    let Some((_p, h)) = History::from_text(&text) else { return 2 };
    fn go<K: Kt>(a: &Args, h: &History) -> i32 {
        let kill_at = a.get("kill-at").and_then(|s| s.parse::<usize>().ok());
        let markers = a.get("markers").is_some();
        let dir = PathBuf::from(a.get("dir").unwrap_or("/nonexistent"));
        let mut ctx = Ctx::new("C03", &["C03"], &a.scratch, "child");
        let mon = Mon::default();
        let mut s = match Session::<K>::create(&dir, "m", &h.cfg) {
            Ok(s) => s,
            Err(e) => {
                println!("create failed: {e}");
                return 3;
            }
        };
        let mut bits = Rng::new(11);
        for (i, op) in h.ops.iter().enumerate() {
            if Some(i) == kill_at {
                // model at the call (sync calls do not change it)
                let mut t = String::new();
                for (k, v) in s.model.iter() {
                    t.push_str(&format!("kv {} {}\n", crate::util::hex(k), crate::util::hex(v)));
                }
                if let Some(mp) = a.get("model") {
                    std::fs::write(mp, t).unwrap();
                }
            }
            if markers && op.is_sync() {
                mark(&format!("MARK begin {i} {}\n", op.kind_name()));
            }
            let r = s.apply(i, op, &h.keys, &mon, &mut ctx, bits.next());
            if markers && op.is_sync() {
                mark(&format!("MARK end {i} {}\n", op.kind_name()));
            }
            if let Err(f) = r {
                println!("call {i} failed in child: {}", f.msg);
                return 3;
            }
            if Some(i) == kill_at {
                crate::sys::kill_self();
            }
        }
        s.close();
        0
    }
    let kt = h.kt.clone();
    with_kt!(kt.as_str(), go(a, &h))
}

/// write a C03-style history to --out (used by the strace stage of the driver)
pub fn c03_genhist(a: &Args) -> i32 {
    let ed = edges();
    let mut rng = Rng::new(a.seed ^ 0xC03E);
    let p = c03_profile(&mut rng, a.get_u64("ops", 800) as usize);
    let cfg = Cfg { buckets: Cfg::random_buckets(&mut rng, false), key: Cfg::random_buf(&mut rng), val: Cfg::random_buf(&mut rng), htx: Cfg::random_buf(&mut rng) };
    let mut gen = Gen::new(rng.next(), &ed);
    let mut h = gen_history_kt("bytes", &mut gen, &p, cfg, "c03 strace history");
    add_windows(&mut h, &mut rng, false);
    match a.out.as_ref().map(|o| std::fs::write(o, h.to_text("C03", None, ""))) {
        Some(Ok(())) => 0,
        _ => 2,
    }
}

/// a map whose `.htx` (or `.val`) file is gone is opened (the crate re-creates the file) and flushed before any
/// update: whatever the contents now are, a flush that returns Ok must leave a directory that opens
fn c03_recreated_file(a: &Args, ctx: &mut Ctx, rng: &mut Rng) -> Option<Stop> {
    use abyssiniandb::{DbXxx, DbXxxBase};
    let dir = a.scratch.join("c03m");
    let snap = a.scratch.join("c03msnap");
    for which in ["htx", "val"] {
        let _ = std::fs::remove_dir_all(&dir);
        let made = guarded_io(|| {
            let db = abyssiniandb::open_file(&dir)?;
            let mut m = db.db_map_string_with_params("m", Cfg::small(*rng.pick(&[8u64, 64])).params())?;
            for j in 0..20 {
                m.put_string(format!("k{j}").as_str(), "some value")?;
            }
            Ok(())
        });
        if made.is_err() {
            return Some(Stop::Harness("cannot build the map".into()));
        }
        let gone = dir.join(format!("m.{which}"));
        if rng.chance(1, 2) {
            let _ = std::fs::remove_file(&gone);
        } else {
            let _ = std::fs::write(&gone, b"");
        }
        let kind = rng.below(3);
        let flushed = guarded_io(|| {
            let db = abyssiniandb::open_file(&dir)?;
            let mut m = db.db_map_string("m")?;
            match kind {
                0 => m.flush()?,
                1 => m.sync_data()?,
                _ => db.sync_all()?,
            }
            // handles stay alive while the directory is copied
            copy_dir(&dir, &snap)?;
            Ok(())
        });
        ctx.count("recreated_file_scenarios", 1);
        if flushed.is_err() {
            // refusing to open (or to flush) such a map is no loss of durability
            ctx.count("recreated_file_scenarios.refused", 1);
            continue;
        }
        let opens = guarded_io(|| {
            let db = abyssiniandb::open_file(&snap)?;
            let m = db.db_map_string("m")?;
            let _ = m.len()?;
            Ok(())
        });
        if let Err(e) = opens {
            return Some(ctx.classify(finding(&["C03"], "snapshot", 0, format!("a map whose .{which} file was missing was opened (the file was re-created) and {} returned Ok before any update; a copy of the directory taken then does not open: {e}", ["flush", "sync_data", "db.sync_all"][kind as usize]))));
        }
    }
    let _ = std::fs::remove_dir_all(&dir);
    let _ = std::fs::remove_dir_all(&snap);
    None
}

fn guarded_io(f: impl FnOnce() -> std::io::Result<()>) -> Result<(), String> {
    match crate::session::guarded(crate::session::STEP_BUDGET_BASE, f) {
        Guard::Ok(Ok(())) => Ok(()),
        Guard::Ok(Err(e)) => Err(e.to_string()),
        Guard::Hang(m) | Guard::Panic(m) => Err(m),
    }
}

pub fn c03(a: &Args) -> Ctx {
    let mut ctx = Ctx::new("C03", &["C03"], &a.replay_dir, &a.shard_name());
    let ed = edges();
    let mut rng = Rng::new(a.shard_seed() ^ 0xC03);
    let n_hist = a.get_u64("histories", 2) as usize;
    let n_ops = a.get_u64("ops", 1500) as usize;
    let kill_hist = a.get_u64("kill_histories", 1) as usize;
    let max_sites = a.get_u64("kill_sites", 12) as usize;
    {
        let mut r3 = Rng::new(a.shard_seed() ^ 0xC03F);
        if let Some(stop) = c03_recreated_file(a, &mut ctx, &mut r3) {
            let v = matches!(stop, Stop::Violation(_));
            ctx.record_stop(stop, None);
            if v {
                return ctx;
            }
        }
    }
    for i in 0..n_hist {
        let kt = pick_kt(&mut rng, 50);
        let p = c03_profile(&mut rng, n_ops);
        let cfg = Cfg { buckets: Cfg::random_buckets(&mut rng, false), key: Cfg::random_buf(&mut rng), val: Cfg::random_buf(&mut rng), htx: Cfg::random_buf(&mut rng) };
        let mut gen = Gen::new(rng.next(), &ed);
        let mut h = gen_history_kt(kt, &mut gen, &p, cfg, &format!("c03 shard={} i={i}", a.shard));
        let wrap = i == 0 && a.shard % 4 == 1;
        if wrap {
            ctx.count("wrap_window_histories", 1);
        }
        add_windows(&mut h, &mut rng, wrap);
        let mut r2 = rng.fork();
        fn go<K: Kt>(a: &Args, h: &History, ctx: &mut Ctx, rng: &mut Rng) -> Option<Stop> {
            c03_history::<K>(a, h, ctx, rng)
        }
        let stop = with_kt!(kt, go(a, &h, &mut ctx, &mut r2));
        ctx.evaluations += 1;
        ctx.count("calls_executed", h.ops.len() as u64);
        ctx.count(&format!("histories.kt.{kt}"), 1);
        ctx.drain_notes();
        if ctx.samples.len() < 2 {
            let mut s = J::obj();
            s.set("origin", J::s(&h.origin));
            s.set("cfg", J::s(h.cfg.text()));
            s.set("sync_sites", J::u(h.ops.iter().filter(|o| o.is_sync()).count() as u64));
            s.set("first_ops", J::Arr(h.sample(40).into_iter().map(J::s).collect()));
            ctx.samples.push(s);
        }
        if let Some(stop) = stop {
            let v = matches!(stop, Stop::Violation(_));
            ctx.record_stop(stop, Some(&h));
            if v {
                return ctx;
            }
            continue;
        }
        if i < kill_hist {
            // shorter history for the kill variant: every site is killed
            let mut hk = h.clone();
            hk.ops.truncate(a.get_u64("kill_ops", 600) as usize);
            fn gk<K: Kt>(a: &Args, h: &History, ctx: &mut Ctx, m: usize) -> Option<Stop> {
                c03_kills::<K>(a, h, ctx, m)
            }
            if let Some(stop) = with_kt!(kt, gk(a, &hk, &mut ctx, max_sites)) {
                let v = matches!(stop, Stop::Violation(_));
                ctx.record_stop(stop, Some(&hk));
                if v {
                    return ctx;
                }
            }
        }
    }
    ctx
}

#[allow(dead_code)]
fn _u(_: Guard<()>) {}
