//! checks that are "generate histories, run them with the property's monitors attached".
use super::*;
use crate::decoder::{bucket_of, class_index, Decoded, SlotKind};
use crate::ops::ITER_FLAVOURS;
use crate::session::{run_ops, Model};
use crate::util::{hex, unhex};
use abyssiniandb::DbBytes;
use std::collections::{BTreeMap, HashMap, HashSet};

fn default_bufs(b: Buckets) -> Cfg {
    Cfg { buckets: b, key: Buf::PerMille(1000), val: Buf::Auto, htx: Buf::PerMille(1000) }
}

// ---------------------------------------------------------------- C02

fn dump_model(path: &Path, model: &Model, keys: &[Vec<u8>]) -> std::io::Result<()> {
    let mut s = String::new();
    for (k, v) in model {
        s.push_str(&format!("kv {} {}\n", hex(k), hex(v)));
    }
    for k in keys {
        if !model.contains_key(k) {
            s.push_str(&format!("absent {}\n", hex(k)));
        }
    }
    std::fs::write(path, s)
}

fn load_model(path: &Path) -> Option<(Model, Vec<Vec<u8>>)> {
    let t = std::fs::read_to_string(path).ok()?;
    let mut m = Model::new();
    let mut absent = Vec::new();
    for l in t.lines() {
        let p: Vec<&str> = l.split(' ').collect();
        match p[0] {
            "kv" => {
                m.insert(unhex(p.get(1)?)?, unhex(p.get(2).unwrap_or(&""))?);
            }
            "absent" => absent.push(unhex(p.get(1).unwrap_or(&""))?),
            _ => {}
        }
    }
    Some((m, absent))
}

/// child: open a directory in a fresh process (with the parameters given) and compare it with a model file.
/// exit 0 = equal, 1 = differs (message on stdout), 2 = harness problem
pub fn c02_verify_child(a: &Args) -> i32 {
    fn go<K: Kt>(a: &Args) -> i32 {
        let dir = PathBuf::from(a.get("dir").unwrap_or(""));
        let Some((model, absent)) = load_model(Path::new(a.get("model").unwrap_or(""))) else {
            println!("cannot load model");
            return 2;
        };
        let cfg = Cfg::parse(a.get("cfg").unwrap_or("")).unwrap_or(Cfg::small(8));
        let mut ctx = Ctx::new("C02", &["C02"], &a.scratch, "child");
        let mut s = Session::<K>::attach(&dir, a.get("name").unwrap_or("m"), model.clone(), model.len());
        if let Err(e) = s.open(&cfg) {
            println!("open in a new process failed: {e}");
            return 1;
        }
        let mut keys: Vec<Vec<u8>> = model.keys().cloned().collect();
        keys.extend(absent);
        let r = s.full_compare(0, &keys, &["C02"], "in a freshly spawned process", &mut ctx);
        s.close();
        match r {
            Ok(()) => 0,
            Err(f) => {
                println!("{}", f.msg);
                1
            }
        }
    }
    let kt = a.get("kt").unwrap_or("bytes").to_string();
    with_kt!(kt.as_str(), go(a))
}

pub fn spawn_verify(a: &Args, dir: &Path, name: &str, kt: &str, cfg: &Cfg, model: &Model, keys: &[Vec<u8>]) -> Result<(), String> {
    let mpath = a.scratch.join(format!("model_{}.txt", std::process::id()));
    dump_model(&mpath, model, keys).map_err(|e| format!("HARNESS cannot dump model: {e}"))?;
    let exe = std::env::current_exe().map_err(|e| format!("HARNESS {e}"))?;
    let out = std::process::Command::new(exe)
        .args(["c02-verify", "--dir", &dir.to_string_lossy(), "--name", name, "--model", &mpath.to_string_lossy(), "--kt", kt, "--cfg", &cfg.text(), "--scratch", &a.scratch.join("child").to_string_lossy()])
        .output()
        .map_err(|e| format!("HARNESS spawn failed: {e}"))?;
    let _ = std::fs::remove_file(&mpath);
    match out.status.code() {
        Some(0) => Ok(()),
        Some(1) => Err(String::from_utf8_lossy(&out.stdout).trim().to_string()),
        other => Err(format!("HARNESS child ended with {other:?}: {} {}", String::from_utf8_lossy(&out.stdout), String::from_utf8_lossy(&out.stderr))),
    }
}

pub fn c02(a: &Args) -> Ctx {
    let mut ctx = Ctx::new("C02", &["C02"], &a.replay_dir, &a.shard_name());
    let ed = edges();
    let mut rng = Rng::new(a.shard_seed() ^ 0xC02);
    let n_hist = a.get_u64("histories", 2) as usize;
    let n_ops = a.get_u64("ops", 5000) as usize;
    let mon = Mon { full_compare_at_reopen: true, ..Default::default() };
    for i in 0..n_hist {
        let kt = pick_kt(&mut rng, 40);
        let mut p = Profile::base(*rng.pick(&[10usize, 50, 300]), n_ops);
        p.w_reopen = 4;
        p.w_sync = 2;
        p.random_bufs = true;
        let cfg = Cfg::random(&mut rng, false);
        let mut gen = Gen::new(rng.next(), &ed);
        let h = gen_history_kt(kt, &mut gen, &p, cfg, &format!("c02 shard={} i={i}", a.shard));
        let mut child_rng = rng.fork();
        fn go<K: Kt>(a: &Args, h: &History, mon: &Mon, ctx: &mut Ctx, rng: &mut Rng) -> Option<Stop> {
            let dir = a.scratch.join("c02");
            let _ = std::fs::remove_dir_all(&dir);
            // the map name contains a dot, and sibling maps whose names differ only behind the last dot are
            // updated in sessions of their own while the primary map is closed: it must come back unchanged
            // one shard in four uses names of more than 140 bytes that agree in their first 139 bytes
            let long = "n".repeat(139);
            let (pname, sibs): (String, [String; 2]) = if a.shard % 4 == 1 { (format!("{long}A1"), [format!("{long}B2"), format!("{long}A")]) } else { ("m.v1".to_string(), ["m.v2".to_string(), "m".to_string()]) };
            let pname = pname.as_str();
            let mut sib_model = Model::new();
            let mut s = match Session::<K>::create(&dir, pname, &h.cfg) {
                Ok(s) => s,
                Err(e) => return Some(ctx.classify(finding(&["C07"], "create", 0, e))),
            };
            let mut bits = Rng::new(7);
            let mut reopens = 0u64;
            for (i, op) in h.ops.iter().enumerate() {
                // keep extra handles alive until the drop point (clone, second lookup, lookup via db clone)
                if i % 97 == 0 && s.extra.len() < 6 {
                    let m2 = match i % 3 {
                        0 => s.map.as_ref().unwrap().clone(),
                        1 => K::open(s.db.as_ref().unwrap(), pname, Cfg::small(64).params()).unwrap(),
                        _ => K::open(&s.db.as_ref().unwrap().clone(), pname, h.cfg.params()).unwrap(),
                    };
                    s.extra.push(m2);
                    ctx.count("extra_handles_kept", 1);
                }
                if let Op::Reopen(_) = op {
                    // every sixth drop happens right after the map was emptied (the last update before the close is
                    // the delete of the last entry)
                    if reopens % 6 == 4 {
                        let present: Vec<usize> = (0..h.keys.len()).filter(|k| s.model.contains_key(&h.keys[*k])).collect();
                        for k in present {
                            if let Err(f) = s.apply(i, &Op::Del(k), &h.keys, mon, ctx, bits.next()) {
                                return Some(ctx.classify(f));
                            }
                        }
                        ctx.count("drops_of_an_emptied_map", 1);
                    }
                }
                if let Op::Reopen(cfg) = op {
                    reopens += 1;
                    ctx.count(&format!("reopen.param_pair.{}->{}", crate::props::table_class(h.cfg.buckets.expected_n()), crate::props::table_class(cfg.buckets.expected_n())), 1);
                    if reopens % 3 == 2 {
                        // a session of its own on a sibling map while every handle of the primary is dropped
                        s.close();
                        let r = crate::session::guarded(crate::session::STEP_BUDGET_BASE, || -> std::io::Result<bool> {
                            use abyssiniandb::DbXxx;
                            let db = abyssiniandb::open_file(&dir)?;
                            let mut ok = true;
                            for (si, nm) in sibs.iter().enumerate() {
                                let mut sib = K::open(&db, nm, Cfg::random(rng, false).params())?;
                                for (k, v) in sib_model.iter() {
                                    ok &= sib.get(&k[..])?.as_ref() == Some(v) || si == 1;
                                }
                                for j in 0..4u32 {
                                    let k = K::make_key(rng, 6 + j as usize);
                                    let v = crate::util::gen_bytes(10 + 30 * j as usize, reopens as u32 + j, 0);
                                    sib.put(&k[..], &v)?;
                                    if si == 0 {
                                        sib_model.insert(k, v);
                                    }
                                }
                            }
                            Ok(ok)
                        });
                        ctx.count("sibling_sessions", 1);
                        match r {
                            crate::session::Guard::Ok(Ok(true)) => {}
                            crate::session::Guard::Ok(Ok(false)) => return Some(ctx.classify(finding(&["C02"], "sibling_reopen", i, format!("the sibling map m.v2, reopened in a session of its own at call {i}, lost or changed entries")))),
                            crate::session::Guard::Ok(Err(e)) => return Some(ctx.classify(finding(&["C11"], "sibling_session", i, format!("a session on sibling maps m.v2 / m failed: {e}")))),
                            crate::session::Guard::Hang(m) | crate::session::Guard::Panic(m) => {
                                // a sibling that cannot even be opened next to the closed primary: the primary is checked below anyway
                                ctx.count("sibling_session_panics", 1);
                                let _ = m;
                            }
                        }
                        if let Err(e) = s.open(&h.cfg) {
                            return Some(ctx.classify(finding(&["C02"], "reopen", i, format!("after a session on sibling maps the map does not reopen: {e}"))));
                        }
                        if let Err(f) = s.full_compare(i, &h.keys, &["C02"], "after a session on sibling maps (m.v2, m) while it was closed", ctx) {
                            return Some(ctx.classify(f));
                        }
                    }
                    if reopens % 4 == 1 {
                        // all handles dropped; verify in a freshly spawned process with yet other parameters
                        s.close();
                        let other = Cfg::random_reopen(rng);
                        match spawn_verify(a, &dir, pname, K::NAME, &other, &s.model, &h.keys) {
                            Ok(()) => ctx.count("reopen.new_process", 1),
                            Err(m) if m.starts_with("HARNESS") => return Some(Stop::Harness(m)),
                            Err(m) => return Some(ctx.classify(finding(&["C02"], "reopen_new_process", i, format!("state dropped at call {i}, reopened with {}: {m}", other.text())))),
                        }
                        if let Ok(img) = Image::read(&dir, pname) {
                            ctx.digests.insert(img.digest());
                            if !s.model.is_empty() {
                                ctx.nontrivial.insert(img.digest());
                            }
                        }
                        // continue: Session::apply reopens below
                    }
                }
                if let Err(f) = s.apply(i, op, &h.keys, mon, ctx, bits.next()) {
                    return Some(ctx.classify(f));
                }
                if let Op::Reopen(cfg) = op {
                    // parameters given at reopen must be ignored in favour of the stored table size
                    let want = h.cfg.buckets.expected_n();
                    if s.n_buckets != want {
                        return Some(ctx.classify(finding(&["C02", "C07"], "reopen_params", i, format!("table has {} buckets after reopening with {}, it was created with {} buckets", s.n_buckets, cfg.text(), want))));
                    }
                    if let Ok(img) = Image::read(&dir, pname) {
                        if img.htx.len() < 4_000_000 {
                            ctx.digests.insert(img.digest());
                            if !s.model.is_empty() {
                                ctx.nontrivial.insert(img.digest());
                            }
                        }
                    }
                }
            }
            // final drop + new process
            s.close();
            let other = Cfg::random_reopen(rng);
            match spawn_verify(a, &dir, pname, K::NAME, &other, &s.model, &h.keys) {
                Ok(()) => ctx.count("reopen.new_process", 1),
                Err(m) if m.starts_with("HARNESS") => return Some(Stop::Harness(m)),
                Err(m) => return Some(ctx.classify(finding(&["C02"], "reopen_new_process", h.ops.len(), format!("final state reopened with {}: {m}", other.text())))),
            }
            let _ = std::fs::remove_dir_all(&dir);
            None
        }
        let stop = with_kt!(kt, go(a, &h, &mon, &mut ctx, &mut child_rng));
        ctx.evaluations += 1;
        ctx.count("calls_executed", h.ops.len() as u64);
        ctx.count(&format!("histories.kt.{kt}"), 1);
        ctx.drain_notes();
        if ctx.samples.len() < 3 {
            let mut s = J::obj();
            s.set("origin", J::s(&h.origin));
            s.set("kt", J::s(&h.kt));
            s.set("cfg", J::s(h.cfg.text()));
            s.set("reopens", J::u(h.ops.iter().filter(|o| matches!(o, Op::Reopen(_))).count() as u64));
            s.set("first_ops", J::Arr(h.sample(30).into_iter().map(J::s).collect()));
            ctx.samples.push(s);
        }
        if let Some(stop) = stop {
            let v = matches!(stop, Stop::Violation(_));
            ctx.record_stop(stop, Some(&h));
            if v {
                break;
            }
        }
    }
    ctx
}

// ---------------------------------------------------------------- C04

/// find `want` distinct keys that the independent hash places in bucket `b` of an n-bucket table
pub fn keys_for_bucket(n: u64, b: u64, want: usize, salt: u64, len: usize) -> Vec<Vec<u8>> {
    let mut out = Vec::new();
    let mut i = salt.wrapping_mul(0x9E37_79B9);
    let mut tries = 0u64;
    while out.len() < want && tries < 400 * n.max(16) + 10_000 {
        tries += 1;
        i = i.wrapping_add(1);
        let mut k = format!("{:x}", i).into_bytes();
        while k.len() < len {
            k.push(b'_');
        }
        if bucket_of(&k, n) == b {
            out.push(k);
        }
    }
    out
}

fn occupancy_patterns(n: u64) -> Vec<(&'static str, Vec<u64>)> {
    let mut v: Vec<(&'static str, Vec<u64>)> = Vec::new();
    let inb = |x: i64| -> Option<u64> { if x >= 0 && (x as u64) < n { Some(x as u64) } else { None } };
    let n_i = n as i64;
    let mk = |xs: &[i64]| -> Vec<u64> {
        let mut s: Vec<u64> = xs.iter().filter_map(|&x| inb(x)).collect();
        s.sort_unstable();
        s.dedup();
        s
    };
    v.push(("empty", vec![]));
    v.push(("first", mk(&[0])));
    v.push(("last", mk(&[n_i - 1])));
    v.push(("n-8", mk(&[n_i - 8])));
    v.push(("n-9", mk(&[n_i - 9])));
    v.push(("n-9,n-1", mk(&[n_i - 9, n_i - 1])));
    v.push(("n-16,n-9", mk(&[n_i - 16, n_i - 9])));
    v.push(("63", mk(&[63])));
    v.push(("64", mk(&[64])));
    v.push(("63,64", mk(&[63, 64])));
    v.push(("n-65,n-64,n-63", mk(&[n_i - 65, n_i - 64, n_i - 63])));
    v.push(("every8th", (0..n).step_by(8).collect()));
    v.push(("every8th+7", (0..n).filter(|x| x % 8 == 7).collect()));
    v.push(("every64th", (0..n).step_by(64).collect()));
    v.push(("every64th+63", (0..n).filter(|x| x % 64 == 63).collect()));
    if n <= 4096 {
        v.push(("all", (0..n).collect()));
    }
    // the word-wise bitmap scan: a last occupied bucket of every residue mod 64 before the final group of 8,
    // plus one key in the final group (what lies between them is empty)
    if n >= 128 {
        const NAMES: [&str; 64] = ["r00+last", "r01+last", "r02+last", "r03+last", "r04+last", "r05+last", "r06+last", "r07+last", "r08+last", "r09+last", "r10+last", "r11+last", "r12+last", "r13+last", "r14+last", "r15+last", "r16+last", "r17+last", "r18+last", "r19+last", "r20+last", "r21+last", "r22+last", "r23+last", "r24+last", "r25+last", "r26+last", "r27+last", "r28+last", "r29+last", "r30+last", "r31+last", "r32+last", "r33+last", "r34+last", "r35+last", "r36+last", "r37+last", "r38+last", "r39+last", "r40+last", "r41+last", "r42+last", "r43+last", "r44+last", "r45+last", "r46+last", "r47+last", "r48+last", "r49+last", "r50+last", "r51+last", "r52+last", "r53+last", "r54+last", "r55+last", "r56+last", "r57+last", "r58+last", "r59+last", "r60+last", "r61+last", "r62+last", "r63+last"];
        for r in 0..64u64 {
            // largest bucket below the final group with this residue
            let mut b = n - 9;
            while b % 64 != r {
                b -= 1;
            }
            let last = n - 1 - (r % 8);
            v.push((NAMES[r as usize], vec![b, last]));
            // and the same residue one word (64 buckets) earlier: the word scan then runs up to the bound
            if b >= 64 {
                v.push((NAMES[r as usize], vec![b - 64, last]));
            }
        }
    }
    v.retain(|(nm, s)| *nm == "empty" || !s.is_empty());
    if n > 65536 {
        // a key for one given bucket of a 2^24-bucket table costs ~2^24 hash evaluations: only sparse patterns
        v.retain(|(_, s)| s.len() <= 3);
        v.push(("random200", (0..200u64).map(|i| (i.wrapping_mul(0x9E37_79B9_7F4A_7C15) >> 7) % n).collect()));
    }
    v
}

fn c04_pattern_case(a: &Args, n: u64, pname: &str, buckets: &[u64], ctx: &mut Ctx, rng: &mut Rng) -> Option<(Stop, History)> {
    // keys: one per chosen bucket, plus a second/third key (chains) for a few of them
    let mut keys: Vec<Vec<u8>> = Vec::new();
    let cap = 1500usize;
    let step = (buckets.len() / cap).max(1);
    let chosen: Vec<u64> = buckets.iter().copied().step_by(step).collect();
    if pname == "random200" {
        // take the keys where they fall instead of searching one per bucket
        for j in 0..200u32 {
            keys.push(format!("r{}_{j}", rng.next() % 100_000).into_bytes());
        }
    } else {
        for (j, &b) in chosen.iter().enumerate() {
            let want = if j % 5 == 0 && n <= 65536 { 3 } else { 1 };
            keys.extend(keys_for_bucket(n, b, want, rng.next() % 1000, 1 + (j % 13)));
        }
    }
    let mut ops: Vec<Op> = Vec::new();
    for i in 0..keys.len() {
        ops.push(Op::Put(i, ValSpec { len: (i % 40) as u32, seed: i as u32, kind: 0 }));
    }
    ops.push(Op::Flush); // iterate_at_sync: all flavours
    // overwrite some, delete every other key, traverse; delete all (emptied again), traverse; refill a few, traverse
    for i in (0..keys.len()).step_by(3) {
        ops.push(Op::Put(i, ValSpec { len: 50 + (i % 7) as u32, seed: 9, kind: 0 }));
    }
    ops.push(Op::SyncData);
    for i in (0..keys.len()).step_by(2) {
        ops.push(Op::Del(i));
    }
    ops.push(Op::Flush);
    for i in 0..keys.len() {
        ops.push(Op::Del(i));
    }
    ops.push(Op::SyncAll);
    for i in (0..keys.len()).step_by(4) {
        ops.push(Op::Put(i, ValSpec { len: 3, seed: 1, kind: 0 }));
    }
    ops.push(Op::Flush);
    ops.push(Op::Iter(0, 1));
    let h = History { kt: "bytes".into(), cfg: default_bufs(Buckets::Size(n)), keys, ops, origin: format!("c04 pattern n={n} occupied={pname}") };
    let mon = Mon { iterate_at_sync: true, ..Default::default() };
    let dir = a.scratch.join("c04p");
    if a.get("as") == Some("C07") {
        // the same history under other table sizes first
        for other in [1u64, 64] {
            let mut h2 = h.clone();
            h2.cfg = default_bufs(Buckets::Size(other));
            h2.origin = format!("{} replayed in a table of {other} buckets", h.origin);
            let r2 = run_history::<DbBytes>(&dir, &h2, &mon, ctx);
            ctx.evaluations += 1;
            if let Some(st) = r2.stop {
                return Some((st, h2));
            }
        }
    }
    let res = run_history::<DbBytes>(&dir, &h, &mon, ctx);
    ctx.evaluations += 1;
    ctx.count(&format!("pattern.{pname}"), 1);
    ctx.count(&format!("pattern_table.{n}"), 1);
    if let Ok(img) = Image::read(&dir, "m") {
        let d = crate::util::digest64(n, &img.htx) ^ img.digest();
        ctx.digests.insert(d);
        if !h.keys.is_empty() {
            ctx.nontrivial.insert(d);
        }
    }
    let _ = std::fs::remove_dir_all(&dir);
    res.stop.map(|s| (s, h))
}

pub fn c04(a: &Args) -> Ctx {
    // `--as C07`: the occupancy patterns judged for C07 (the same keys must traverse alike whatever the table size):
    // every pattern's key set is also put into tables of 1 and 64 buckets
    let as_c07 = a.get("as") == Some("C07");
    let mut ctx = if as_c07 { Ctx::new("C07", &["C07", "C04"], &a.replay_dir, &a.shard_name()) } else { Ctx::new("C04", &["C04"], &a.replay_dir, &a.shard_name()) };
    let mut rng = Rng::new(a.shard_seed() ^ 0xC04);
    let mut sizes: Vec<u64> = vec![1, 2, 4, 8, 16, 32, 64, 128, 256, 512, 1024, 2048, 4096, 8192, 16384, 32768, 65536];
    if a.thorough && a.get("default_table").is_some() {
        sizes = vec![16 * 1024 * 1024];
    }
    // targeted occupancy patterns, table sizes dealt round-robin over the shards
    let reps = a.get_u64("pattern_reps", 1);
    let mut job = 0usize;
    'outer: for _rep in 0..reps {
        for &n in sizes.iter() {
            for (pname, buckets) in occupancy_patterns(n) {
                job += 1;
                if job % a.nshards != a.shard {
                    continue;
                }
                if let Some((stop, h)) = c04_pattern_case(a, n, pname, &buckets, &mut ctx, &mut rng) {
                    let v = matches!(stop, Stop::Violation(_));
                    ctx.record_stop(stop, Some(&h));
                    if v {
                        break 'outer;
                    }
                }
            }
        }
    }
    ctx.drain_notes();
    if !ctx.violations.is_empty() {
        return ctx;
    }
    // random histories with frequent traversals
    let ed = edges();
    let n_hist = a.get_u64("histories", 3) as usize;
    let n_ops = a.get_u64("ops", 3000) as usize;
    let mon = Mon { iterate_at_sync: true, ..Default::default() };
    for i in 0..n_hist {
        let kt = pick_kt(&mut rng, 40);
        let mut p = Profile::base(*rng.pick(&[3usize, 10, 50, 300, 1000]), n_ops);
        p.w_sync = 10;
        p.w_iter = 20;
        p.max_val = 3000;
        let cfg = default_bufs(Cfg::random_buckets(&mut rng, false));
        let mut gen = Gen::new(rng.next(), &ed);
        let h = gen_history_kt(kt, &mut gen, &p, cfg, &format!("c04 random shard={} i={i}", a.shard));
        if run_and_record(a, &h, &mon, &mut ctx, &format!("r{i}")) {
            break;
        }
    }
    ctx
}

// ---------------------------------------------------------------- C05

pub fn c05(a: &Args) -> Ctx {
    let mut ctx = Ctx::new("C05", &["C05"], &a.replay_dir, &a.shard_name());
    let ed = edges();
    let mut rng = Rng::new(a.shard_seed() ^ 0xC05);
    let n_hist = a.get_u64("histories", 3) as usize;
    let n_ops = a.get_u64("ops", 4000) as usize;
    let mon = Mon { decode_at_sync: true, decode_at_close: true, ..Default::default() };
    if a.shard == 0 {
        for (i, h) in regression_histories().iter().enumerate() {
            let mut h = h.clone();
            h.ops.push(Op::Flush);
            if run_and_record(a, &h, &mon, &mut ctx, &format!("reg{i}")) {
                return ctx;
            }
        }
    }
    for i in 0..n_hist {
        let kt = pick_kt(&mut rng, 40);
        let mut p = Profile::base(*rng.pick(&[5usize, 30, 300, 1500]), n_ops);
        p.w_sync = 20;
        p.w_reopen = 3;
        p.w_bulk = 5;
        p.large_pct = *rng.pick(&[5u32, 15, 30]);
        let cfg = default_bufs(Cfg::random_buckets(&mut rng, false));
        let mut gen = Gen::new(rng.next(), &ed);
        let h = gen_history_kt(kt, &mut gen, &p, cfg, &format!("c05 shard={} i={i}", a.shard));
        if run_and_record(a, &h, &mon, &mut ctx, &format!("{i}")) {
            break;
        }
    }
    ctx
}

// ---------------------------------------------------------------- C06

fn sizes_hist(d: &Decoded, key_file: bool, pred: impl Fn(&SlotKind) -> bool) -> HashMap<u32, u64> {
    let fs = if key_file { &d.keyf } else { &d.valf };
    let mut m = HashMap::new();
    for s in fs.slots.iter().filter(|s| pred(&s.kind)) {
        *m.entry(s.size).or_insert(0u64) += 1;
    }
    m
}

/// per-call audit on small maps: extension rule and the strong per-size bound
fn c06_audited_history(a: &Args, h: &History, ctx: &mut Ctx) -> Option<Stop> {
    let dir = a.scratch.join("c06a");
    let _ = std::fs::remove_dir_all(&dir);
    let mon = Mon::default();
    let mut s = match Session::<DbBytes>::create(&dir, "m", &h.cfg) {
        Ok(s) => s,
        Err(e) => return Some(ctx.classify(finding(&["C07"], "create", 0, e))),
    };
    let mut bits = Rng::new(3);
    // bound[(file, size)] = max over calls of used_post + freed_in_call
    let mut bound: HashMap<(bool, u32), u64> = HashMap::new();
    let flush = |s: &mut Session<DbBytes>| -> Result<(), String> { s.map.as_mut().unwrap().flush_map() };
    if let Err(e) = flush(&mut s) {
        return Some(Stop::Harness(e));
    }
    let mut pre_img = s.image().ok()?;
    let mut pre = decoder::decode(&pre_img, Some(DbBytes::SIG));
    for (i, op) in h.ops.iter().enumerate() {
        if let Err(f) = s.apply(i, op, &h.keys, &mon, ctx, bits.next()) {
            return Some(ctx.classify(f));
        }
        if !op.is_update() {
            continue;
        }
        if let Err(e) = flush(&mut s) {
            return Some(Stop::Harness(e));
        }
        let post_img = match s.image() {
            Ok(x) => x,
            Err(e) => return Some(Stop::Harness(format!("read image: {e}"))),
        };
        let post = decoder::decode(&post_img, Some(DbBytes::SIG));
        ctx.count("images_decoded", 1);
        ctx.count("slots_walked", (post.keyf.slots.len() + post.valf.slots.len()) as u64);
        ctx.digests.insert(post_img.digest());
        if let Some(p) = post.storage_problems().first() {
            return Some(ctx.classify(finding(&["C06"], "storage", i, format!("after {}: {:?}: {}", op.text(), p.group, p.what))));
        }
        if !post.structure_problems().is_empty() {
            let p = post.structure_problems()[0];
            return Some(ctx.classify(finding(&["C05"], "structure", i, format!("after {}: {:?}: {}", op.text(), p.group, p.what))));
        }
        for key_file in [true, false] {
            let (pf, qf) = if key_file { (&pre.keyf, &post.keyf) } else { (&pre.valf, &post.valf) };
            let (plen, qlen) = if key_file { (pre_img.key.len(), post_img.key.len()) } else { (pre_img.val.len(), post_img.val.len()) };
            let nm = if key_file { "key" } else { "val" };
            // slots free before and after the call
            let free_both: Vec<(u64, u32, usize)> = qf
                .slots
                .iter()
                .filter_map(|q| match (q.kind, pf.slot_at(q.off).map(|p| (p.kind, p.size))) {
                    (SlotKind::Free(l), Some((SlotKind::Free(_), psz))) if psz == q.size => Some((q.off, q.size, l)),
                    _ => None,
                })
                .collect();
            // pops and pushes inferred from successive images
            let pushes = qf.slots.iter().filter(|q| matches!(q.kind, SlotKind::Free(_)) && pf.slot_at(q.off).map(|p| p.kind == SlotKind::Used).unwrap_or(false)).count();
            let pops = qf.slots.iter().filter(|q| q.kind == SlotKind::Used && pf.slot_at(q.off).map(|p| matches!(p.kind, SlotKind::Free(_))).unwrap_or(false)).count();
            ctx.count("freelist.pushes_inferred", pushes as u64);
            ctx.count("freelist.pops_inferred", pops as u64);
            if qlen > plen {
                ctx.count("extension_events_audited", 1);
                for q in qf.slots.iter().filter(|q| q.off >= plen as u64) {
                    let ci = class_index(q.size);
                    let fit = free_both.iter().find(|(_, sz, l)| *l == ci && (ci < 15 || *sz >= q.size));
                    if let Some((off, sz, l)) = fit {
                        return Some(ctx.classify(finding(&["C06"], "extension", i, format!("{}: {nm} file grew from {plen} to {qlen} by a new slot of {} bytes at {} although the free slot at {off} ({sz} bytes, free list {l}) was available before and after the call", op.text(), q.size, q.off))));
                    }
                }
            } else if qlen < plen {
                ctx.count("file_shrank", 1);
            }
            // strong bound
            let used_post = sizes_hist(&post, key_file, |k| *k == SlotKind::Used);
            let mut freed: HashMap<u32, u64> = HashMap::new();
            for q in qf.slots.iter() {
                if matches!(q.kind, SlotKind::Free(_)) && pf.slot_at(q.off).map(|p| p.kind == SlotKind::Used).unwrap_or(false) {
                    *freed.entry(q.size).or_insert(0) += 1;
                }
            }
            let total = sizes_hist(&post, key_file, |_| true);
            for (&sz, &tot) in total.iter() {
                let b = bound.entry((key_file, sz)).or_insert(0);
                let now = used_post.get(&sz).copied().unwrap_or(0) + freed.get(&sz).copied().unwrap_or(0);
                if now > *b {
                    *b = now;
                }
                if tot > *b {
                    return Some(ctx.classify(finding(&["C06"], "bound", i, format!("{}: {nm} file holds {tot} slots of {sz} bytes, more than were ever needed at once ({})", op.text(), *b))));
                }
            }
            ctx.count("bound_checks", total.len() as u64);
        }
        pre_img = post_img;
        pre = post;
    }
    s.close();
    let _ = std::fs::remove_dir_all(&dir);
    None
}

trait FlushMap {
    fn flush_map(&mut self) -> Result<(), String>;
}
impl<K: Kt> FlushMap for abyssiniandb::filedb::FileDbMap<K> {
    fn flush_map(&mut self) -> Result<(), String> {
        use abyssiniandb::DbXxxBase;
        match crate::session::guarded(crate::session::STEP_BUDGET_BASE, || self.flush()) {
            crate::session::Guard::Ok(Ok(())) => Ok(()),
            crate::session::Guard::Ok(Err(e)) => Err(format!("flush failed in audit: {e}")),
            crate::session::Guard::Hang(m) | crate::session::Guard::Panic(m) => Err(format!("flush in audit: {m}")),
        }
    }
}

fn c06_small_history(rng: &mut Rng, n_ops: usize, ed: &Edges, origin: &str) -> History {
    // 3..10 keys, values dominated by large sizes so that the shared first-fit list is busy
    let nkeys = rng.range(3, 10) as usize;
    let mut p = Profile::base(nkeys, n_ops);
    p.max_key = 64;
    let mut gen = Gen::new(rng.next(), ed);
    let mut keys = gen.keys::<DbBytes>(&p);
    // one history in three has long keys whose records leave one byte of slack in their slot on the shared first-fit
    // list (1143 + 8 = 1151 in 1152, 1271 + 8 = 1279 in 1280, 1399 + 8 in 1408; one byte longer for a chain tail): one byte more in an offset field moves them
    let long_keys = rng.chance(1, 3);
    if long_keys {
        keys.truncate(2);
        for (j, l) in [1143usize, 1144, 1271, 1143, 1399, 1272].into_iter().enumerate() {
            let mut k = crate::util::gen_bytes(l, 900 + j as u32, 1);
            k[0] = b'A' + j as u8;
            keys.push(k);
        }
    }
    // one history in three works with slots of more than 128 KiB next to small "large" ones (a free slot that is far
    // bigger than the request is still the slot to take)
    let big: &[u32] = if rng.chance(1, 3) { &[1100u32, 2000, 140_000, 300_000, 5000, 1148, 135_000, 1020] } else { &[1100u32, 2000, 5000, 20000, 70000, 1015, 1020, 3000, 1148] };
    let mut ops = Vec::new();
    let style = rng.below(3);
    if long_keys {
        // all of them first, with small values at low offsets: the later overwrites move the values far away
        for k in 0..keys.len() {
            ops.push(Op::Put(k, ValSpec { len: 10 + k as u32, seed: k as u32, kind: 0 }));
        }
    }
    for _ in 0..n_ops {
        let k = rng.below(keys.len() as u64) as usize;
        let r = rng.below(100);
        if r < 60 {
            let len = match style {
                0 => *rng.pick(big),
                1 => {
                    if rng.chance(1, 2) {
                        *rng.pick(big)
                    } else {
                        *rng.pick(&ed.val_small)
                    }
                }
                _ => {
                    // ping-pong across a class edge
                    let e = *rng.pick(&ed.val_small);
                    if rng.chance(1, 2) {
                        e
                    } else {
                        e + 1
                    }
                }
            };
            ops.push(Op::Put(k, ValSpec { len, seed: rng.next() as u32, kind: 0 }));
        } else if r < 90 {
            ops.push(Op::Del(k));
        } else if r < 95 {
            // delete-all / re-insert cycle
            for kk in 0..keys.len() {
                ops.push(Op::Del(kk));
            }
        } else {
            ops.push(Op::Stats);
        }
    }
    History { kt: "bytes".into(), cfg: default_bufs(Buckets::Size(*rng.pick(&[1u64, 8, 64]))), keys, ops, origin: origin.to_string() }
}

/// a fitting free slot behind `n` slots that are too small on the shared first-fit list: one record of length `l` is
/// freed first, then `n` records of 1100..1160 bytes (each pushed in front of it); the next request of length `l` has to
/// walk the whole list and take the slot at its far end instead of extending the file. `keys`: the records are keys.
fn c06_long_list_history(n: usize, l: u32, keys: bool) -> History {
    let mut ks: Vec<Vec<u8>> = Vec::new();
    let mut ops = Vec::new();
    let klen = |i: usize| -> usize { if !keys { 6 } else if i == 0 { l as usize } else { 1100 + (i % 7) * 8 } };
    for i in 0..n + 2 {
        let mut k = crate::util::gen_bytes(klen(i), 7000 + i as u32, 1);
        k[..6].copy_from_slice(format!("L{i:05}").as_bytes());
        if i == n + 1 {
            k.truncate(6);
        }
        ks.push(k);
    }
    let vlen = |i: usize| -> u32 { if keys { 5 + (i % 3) as u32 } else if i == 0 { l } else { 1100 + ((i % 7) * 8) as u32 } };
    for i in 0..n + 2 {
        ops.push(Op::Put(i, ValSpec { len: if i == n + 1 { 20 } else { vlen(i) }, seed: i as u32, kind: 0 }));
    }
    for i in 0..=n {
        ops.push(Op::Del(i));
    }
    // the far end of the list, then two of the small ones again, then the big one once more after another delete
    ops.push(Op::Put(0, ValSpec { len: vlen(0), seed: 99, kind: 0 }));
    ops.push(Op::Put(1, ValSpec { len: vlen(1), seed: 98, kind: 0 }));
    ops.push(Op::Put(n, ValSpec { len: vlen(n), seed: 97, kind: 0 }));
    ops.push(Op::Del(0));
    ops.push(Op::Put(0, ValSpec { len: vlen(0), seed: 96, kind: 0 }));
    History { kt: "bytes".into(), cfg: default_bufs(Buckets::Size(64)), keys: ks, ops, origin: format!("c06 long first-fit list n={n} l={l} keys={keys}") }
}

pub fn c06(a: &Args) -> Ctx {
    let mut ctx = Ctx::new("C06", &["C06"], &a.replay_dir, &a.shard_name());
    // (0) directed: a fitting slot at the far end of a long first-fit list
    let variants: [(usize, u32, bool); 10] = [(3, 3000, false), (25, 3000, false), (40, 20_000, false), (70, 3000, false), (130, 5000, false), (300, 3000, false), (25, 3000, true), (40, 5000, true), (70, 3000, true), (130, 3000, true)];
    for (i, &(n, l, keys)) in variants.iter().enumerate() {
        if i % a.nshards != a.shard {
            continue;
        }
        let h = c06_long_list_history(n, l, keys);
        ctx.evaluations += 1;
        ctx.count("long_list_histories", 1);
        ctx.max("long_list_max_depth", n as u64);
        if let Some(stop) = c06_audited_history(a, &h, &mut ctx) {
            let v = matches!(stop, Stop::Violation(_));
            ctx.record_stop(stop, Some(&h));
            if v {
                return ctx;
            }
        }
    }
    let ed = edges();
    let mut rng = Rng::new(a.shard_seed() ^ 0xC06);
    // (1) audited small maps
    let n_small = a.get_u64("small", 6) as usize;
    let small_ops = a.get_u64("small_ops", 400) as usize;
    if a.shard == 0 {
        let mut h = regression_histories().into_iter().find(|h| h.origin.starts_with("regression D4")).unwrap();
        h.ops.retain(|o| !matches!(o, Op::Stats));
        ctx.evaluations += 1;
        if let Some(stop) = c06_audited_history(a, &h, &mut ctx) {
            let v = matches!(stop, Stop::Violation(_));
            ctx.record_stop(stop, Some(&h));
            if v {
                return ctx;
            }
        }
    }
    for i in 0..n_small {
        let h = c06_small_history(&mut rng, small_ops, &ed, &format!("c06 audited small shard={} i={i}", a.shard));
        ctx.evaluations += 1;
        ctx.count("audited_histories", 1);
        ctx.count("calls_executed", h.ops.len() as u64);
        if ctx.samples.len() < 2 {
            let mut s = J::obj();
            s.set("origin", J::s(&h.origin));
            s.set("cfg", J::s(h.cfg.text()));
            s.set("first_ops", J::Arr(h.sample(30).into_iter().map(J::s).collect()));
            ctx.samples.push(s);
        }
        let stop = c06_audited_history(a, &h, &mut ctx);
        ctx.drain_notes();
        if let Some(stop) = stop {
            let v = matches!(stop, Stop::Violation(_));
            ctx.record_stop(stop, Some(&h));
            if v {
                return ctx;
            }
        }
    }
    for d in ctx.digests.clone() {
        ctx.nontrivial.insert(d);
    }
    // (2) bigger histories, storage invariants + weak bound at every sync point and at close
    let n_hist = a.get_u64("histories", 2) as usize;
    let n_ops = a.get_u64("ops", 4000) as usize;
    let mon = Mon { decode_at_sync: true, decode_at_close: true, ..Default::default() };
    for i in 0..n_hist {
        let kt = pick_kt(&mut rng, 50);
        let mut p = Profile::base(*rng.pick(&[5usize, 30, 300]), n_ops);
        p.w_sync = 15;
        p.w_stats = 3;
        p.w_reopen = 2;
        p.large_pct = *rng.pick(&[20u32, 40, 60]);
        p.max_val = 140_000;
        let cfg = default_bufs(Cfg::random_buckets(&mut rng, false));
        let mut gen = Gen::new(rng.next(), &ed);
        let h = gen_history_kt(kt, &mut gen, &p, cfg, &format!("c06 shard={} i={i}", a.shard));
        if run_and_record(a, &h, &mon, &mut ctx, &format!("{i}")) {
            break;
        }
    }
    ctx
}

/// cyclic workload over a fixed live set: slot counts must stop growing
pub fn c06_cyclic(a: &Args) -> Ctx {
    let mut ctx = Ctx::new("C06", &["C06"], &a.replay_dir, &a.shard_name());
    let mut rng = Rng::new(a.shard_seed() ^ 0xC06C);
    let ed = edges();
    let total_calls = a.get_u64("calls", 100_000) as usize;
    let nkeys = *rng.pick(&[4usize, 16, 64]);
    let mut p = Profile::base(nkeys, 0);
    p.max_key = 200;
    let mut gen = Gen::new(rng.next(), &ed);
    let keys = gen.keys::<DbBytes>(&p);
    let cycle_len = keys.len() * 6;
    // one cycle = a fixed pattern of overwrite / delete / re-insert with a fixed multiset of sizes
    let size_set: Vec<u32> = (0..8).map(|_| if rng.chance(1, 3) { *rng.pick(&[1100u32, 2000, 5000, 20000]) } else { *rng.pick(&ed.val_small) }).collect();
    let mut cycle: Vec<Op> = Vec::new();
    for j in 0..cycle_len {
        let k = j % keys.len();
        match (j / keys.len()) % 3 {
            0 => cycle.push(Op::Put(k, ValSpec { len: size_set[(j * 7 + 1) % size_set.len()], seed: j as u32, kind: 0 })),
            1 => cycle.push(Op::Del(k)),
            _ => cycle.push(Op::Put(k, ValSpec { len: size_set[(j * 3) % size_set.len()], seed: j as u32, kind: 0 })),
        }
    }
    cycle.push(Op::Flush);
    let n_cycles = (total_calls / cycle.len()).max(3);
    let h = History { kt: "bytes".into(), cfg: default_bufs(Buckets::Size(*rng.pick(&[1u64, 8, 256]))), keys: keys.clone(), ops: cycle.clone(), origin: format!("c06 cyclic keys={} cycle_len={} cycles={n_cycles} sizes={size_set:?}", keys.len(), cycle.len()) };
    let dir = a.scratch.join("cyc");
    let _ = std::fs::remove_dir_all(&dir);
    let mon = Mon { decode_at_sync: true, ..Default::default() };
    let mut s = match Session::<DbBytes>::create(&dir, "m", &h.cfg) {
        Ok(s) => s,
        Err(e) => {
            ctx.inconclusive.push(e);
            return ctx;
        }
    };
    let mut sizes_seen: Vec<(u64, u64)> = Vec::new();
    let mut bits = Rng::new(1);
    let mut peak = (0u64, 0u64);
    'c: for c in 0..n_cycles {
        for (i, op) in cycle.iter().enumerate() {
            if let Err(f) = s.apply(c * cycle.len() + i, op, &keys, &mon, &mut ctx, bits.next()) {
                let stop = ctx.classify(f);
                let mut hh = h.clone();
                hh.ops = cycle.iter().cloned().cycle().take((c + 1) * cycle.len()).collect();
                ctx.record_stop(stop, Some(&hh));
                break 'c;
            }
        }
        ctx.count("cycles_run", 1);
        ctx.count("calls_executed", cycle.len() as u64);
        let ks = std::fs::metadata(dir.join("m.key")).map(|m| m.len()).unwrap_or(0);
        let vs = std::fs::metadata(dir.join("m.val")).map(|m| m.len()).unwrap_or(0);
        peak = (peak.0.max(ks), peak.1.max(vs));
        sizes_seen.push((ks, vs));
        // after warm-up (two cycles) the files must not grow any more: every cycle repeats the same
        // demand, so growth means freed slots are not being reused. Decided on slot counts by the
        // decoder bound above; the sampled sizes are reported, and checked for strict monotone growth.
        if c >= 3 && c == n_cycles - 1 {
            let w = sizes_seen[2];
            let last = sizes_seen[c];
            let grows = |f: fn(&(u64, u64)) -> u64| sizes_seen[2..].windows(2).all(|p| f(&p[1]) > f(&p[0]));
            if (last.0 > w.0 && grows(|x| x.0)) || (last.1 > w.1 && grows(|x| x.1)) {
                let f = finding(&["C06"], "cyclic_growth", c * cycle.len(), format!("file sizes grow in every one of {} identical cycles over a fixed live set of {} keys: (key,val) bytes after cycle 3: {:?}, after the last: {:?}", n_cycles - 2, keys.len(), w, last));
                let stop = ctx.classify(f);
                let mut hh = h.clone();
                hh.ops = cycle.iter().cloned().cycle().take(n_cycles.min(30) * cycle.len()).collect();
                ctx.record_stop(stop, Some(&hh));
            }
        }
    }
    s.close();
    ctx.drain_notes();
    ctx.evaluations += 1;
    ctx.max("cyclic.peak_key_file", peak.0);
    ctx.max("cyclic.peak_val_file", peak.1);
    if let Some(l) = sizes_seen.last() {
        ctx.max("cyclic.final_key_file", l.0);
        ctx.max("cyclic.final_val_file", l.1);
    }
    for d in ctx.digests.clone() {
        ctx.nontrivial.insert(d);
    }
    let mut smp = J::obj();
    smp.set("origin", J::s(&h.origin));
    smp.set("cycle_ops", J::Arr(h.sample(20).into_iter().map(J::s).collect()));
    smp.set("sizes_first_cycles", J::Arr(sizes_seen.iter().take(6).map(|(k, v)| J::Arr(vec![J::u(*k), J::u(*v)])).collect()));
    smp.set("sizes_last", sizes_seen.last().map(|(k, v)| J::Arr(vec![J::u(*k), J::u(*v)])).unwrap_or(J::Null));
    ctx.samples.push(smp);
    let _ = std::fs::remove_dir_all(&dir);
    ctx
}

// ---------------------------------------------------------------- C07

fn c07_configs(rng: &mut Rng, count: usize) -> Vec<Cfg> {
    let mut v = vec![
        default_bufs(Buckets::Default),
        Cfg { buckets: Buckets::Size(1), key: Buf::Size(262144), val: Buf::Size(262144), htx: Buf::Size(262144) },
        Cfg { buckets: Buckets::Capacity(1), key: Buf::Size(0), val: Buf::Size(1), htx: Buf::Size(131072) },
        Cfg { buckets: Buckets::Size(3), key: Buf::Auto, val: Buf::Size(400000), htx: Buf::Auto },
        Cfg { buckets: Buckets::Size(65536), key: Buf::Size(262144), val: Buf::PerMille(1000), htx: Buf::Size(262144) },
        Cfg { buckets: Buckets::Capacity(58000), key: Buf::PerMille(1500), val: Buf::Size(1 << 20), htx: Buf::Auto },
    ];
    while v.len() < count {
        v.push(Cfg::random(rng, false));
    }
    // the default table only once per shard (136 MB sparse file)
    v.truncate(count.max(2));
    v
}

fn chunk_budget(b: Buf, file_len: u64) -> u64 {
    match b {
        Buf::Size(s) => (s as u64 / 131072).max(2) * 131072,
        Buf::PerMille(p) => {
            let v = if p >= 1000 { file_len } else { file_len / 1000 * p as u64 };
            (v.max(32768) / 131072 + 1) * 131072
        }
        Buf::Auto => ((file_len / 1000 * 20).max(32768) / 4096 + 1) * 4096,
    }
}

pub fn c07(a: &Args) -> Ctx {
    let mut ctx = Ctx::new("C07", &["C07", "C01", "C02"], &a.replay_dir, &a.shard_name());
    let ed = edges();
    let mut rng = Rng::new(a.shard_seed() ^ 0xC07);
    let n_hist = a.get_u64("histories", 1) as usize;
    let n_ops = a.get_u64("ops", 6000) as usize;
    let n_cfg = a.get_u64("configs", 8) as usize;
    let mon = Mon { get_after_put: true, final_sweep: true, full_compare_at_reopen: true, ..Default::default() };
    // a thinly populated map traversed to the end under table sizes that are not powers of two, with every kind of buffer
    // for the table file (what a traversal reads of an almost empty table depends on both)
    if a.shard % 4 == 0 {
        ctx.own.push("C04");
        let keys: Vec<Vec<u8>> = (0..6u8).map(|i| vec![b't', i]).collect();
        let mut ops = Vec::new();
        for k in 0..5 {
            ops.push(Op::Put(k, ValSpec { len: 10 + k as u32, seed: k as u32, kind: 0 }));
        }
        for f in [0usize, 2, 4] {
            ops.push(Op::Iter(f, usize::MAX));
        }
        ops.push(Op::Del(1));
        ops.push(Op::Put(5, ValSpec { len: 3, seed: 9, kind: 0 }));
        ops.push(Op::Iter(1, usize::MAX));
        ops.push(Op::Reopen(Cfg::random_reopen(&mut rng)));
        ops.push(Op::Iter(3, usize::MAX));
        ops.push(Op::Len);
        let sizes = [16_385u64, 20_000, 33_000, 50_000, 65_000, 65_519, 3, 100, 5_000];
        let x = sizes[(a.shard / 4) % sizes.len()];
        for (j, hb) in [Buf::Auto, Buf::Size(262_144), Buf::PerMille(1000), Buf::Size(0)].into_iter().enumerate() {
            let cfg = Cfg { buckets: Buckets::Size(x), key: Buf::PerMille(1000), val: Buf::Auto, htx: hb };
            let h = History { kt: "bytes".into(), cfg, keys: keys.clone(), ops: ops.clone(), origin: format!("c07 thin map traversed under BucketsSize({x}), table buffer {}", hb.text()) };
            let dir = a.scratch.join(format!("h_thin{j}"));
            let res = run_history_kt("bytes", &dir, &h, &mon, &mut ctx);
            ctx.evaluations += 1;
            ctx.count("thin_map_traversals", 1);
            let _ = std::fs::remove_dir_all(&dir);
            if let Some(stop) = res.stop {
                let stop = match stop {
                    Stop::Violation(mut f) => {
                        f.msg = format!("[config {}] {}", cfg.text(), f.msg);
                        Stop::Violation(f)
                    }
                    s => s,
                };
                let v = matches!(stop, Stop::Violation(_));
                ctx.record_stop(stop, Some(&h));
                if v {
                    return ctx;
                }
            }
        }
        ctx.own.retain(|o| *o != "C04");
    }
    // a map that is created with a given table size, closed before its first update and reopened: everything a later
    // session knows about the table comes from the files of an empty map (table sizes from one bucket up)
    if a.shard % 4 == 1 {
        let keys: Vec<Vec<u8>> = (0..6u8).map(|i| vec![b'e', i, i.wrapping_mul(37)]).collect();
        let sizes = [1u64, 2, 3, 4, 5, 7, 8, 9, 15, 16, 17, 63, 64, 65, 127, 128, 129, 1000, 65_536];
        for (j, &x) in sizes.iter().enumerate() {
            if j % 4 != (a.shard / 4) % 4 {
                continue;
            }
            let cfg = default_bufs(Buckets::Size(x));
            for (v, re) in [cfg, Cfg::random_reopen(&mut rng), default_bufs(Buckets::Size(x + 1))].into_iter().enumerate() {
                let mut ops = vec![Op::Reopen(re), Op::Len, Op::Get(3), Op::Iter(0, usize::MAX)];
                for k in 0..5 {
                    ops.push(Op::Put(k, ValSpec { len: 10 + k as u32, seed: k as u32, kind: 0 }));
                }
                ops.extend([Op::Get(0), Op::Get(5), Op::Iter(2, usize::MAX), Op::Del(1), Op::Len, Op::Reopen(cfg), Op::Iter(3, usize::MAX), Op::Get(4), Op::Len]);
                let h = History { kt: "bytes".into(), cfg, keys: keys.clone(), ops, origin: format!("c07 map created empty under BucketsSize({x}), reopened (variant {v}) before its first update") };
                let dir = a.scratch.join(format!("h_empty{j}_{v}"));
                let res = run_history_kt("bytes", &dir, &h, &mon, &mut ctx);
                ctx.evaluations += 1;
                ctx.count("empty_created_reopened", 1);
                let _ = std::fs::remove_dir_all(&dir);
                if let Some(stop) = res.stop {
                    let v = matches!(stop, Stop::Violation(_));
                    ctx.record_stop(stop, Some(&h));
                    if v {
                        return ctx;
                    }
                }
            }
        }
    }
    for i in 0..n_hist {
        let kt = pick_kt(&mut rng, 70);
        let mut p = Profile::base(*rng.pick(&[300usize, 1500, 3000]), n_ops);
        p.large_pct = 25;
        p.max_val = 140_000;
        p.max_key = 3000;
        p.w_reopen = 1;
        p.random_bufs = true;
        p.w_sync = 1;
        let mut gen = Gen::new(rng.next(), &ed);
        let base = gen_history_kt(kt, &mut gen, &p, Cfg::small(8), &format!("c07 shard={} i={i}", a.shard));
        let mut cfgs = c07_configs(&mut rng, n_cfg);
        if !(a.shard == 0 && i == 0) {
            cfgs.remove(0);
        }
        for (j, cfg) in cfgs.iter().enumerate() {
            let mut h = base.clone();
            h.cfg = *cfg;
            h.origin = format!("{} config#{j}", base.origin);
            let dir = a.scratch.join(format!("h_c{j}"));
            let res = run_history_kt(&h.kt, &dir, &h, &mon, &mut ctx);
            ctx.evaluations += 1;
            ctx.count("calls_executed", res.calls as u64);
            ctx.count(&format!("config.buckets.{}", table_class(cfg.buckets.expected_n())), 1);
            for (nm, b) in [("key", cfg.key), ("val", cfg.val), ("htx", cfg.htx)] {
                let kind = match b {
                    Buf::Auto => "auto".to_string(),
                    Buf::PerMille(_) => "permille".to_string(),
                    Buf::Size(s) if s < 262144 => "size_lt_2chunks".to_string(),
                    Buf::Size(_) => "size".to_string(),
                };
                ctx.count(&format!("config.buf.{nm}.{kind}"), 1);
                let flen = std::fs::metadata(dir.join(format!("m.{nm}"))).map(|m| m.len()).unwrap_or(0);
                if flen > chunk_budget(b, flen) {
                    ctx.count(&format!("config.evicting.{nm}"), 1);
                }
            }
            if let Ok(n) = std::fs::metadata(dir.join("m.val")).map(|m| m.len()) {
                ctx.max("max_val_file", n);
            }
            if let Ok(n) = std::fs::metadata(dir.join("m.key")).map(|m| m.len()) {
                ctx.max("max_key_file", n);
            }
            let d = crate::util::digest64(j as u64, cfg.text().as_bytes()) ^ crate::util::digest64(1, base.origin.as_bytes());
            ctx.digests.insert(d);
            ctx.nontrivial.insert(d);
            if ctx.samples.len() < 3 {
                let mut s = J::obj();
                s.set("origin", J::s(&h.origin));
                s.set("cfg", J::s(cfg.text()));
                s.set("kt", J::s(&h.kt));
                s.set("first_ops", J::Arr(h.sample(12).into_iter().map(J::s).collect()));
                ctx.samples.push(s);
            }
            let _ = std::fs::remove_dir_all(&dir);
            if let Some(stop) = res.stop {
                // every disagreement is between this configuration and the one model: name the configuration
                let stop = match stop {
                    Stop::Violation(mut f) => {
                        f.msg = format!("[config {}] {}", cfg.text(), f.msg);
                        Stop::Violation(f)
                    }
                    s => s,
                };
                let v = matches!(stop, Stop::Violation(_));
                ctx.record_stop(stop, Some(&h));
                if v {
                    return ctx;
                }
            }
        }
    }
    ctx
}

/// K2 probe child: PerMille(p<1000) for a file that outgrows its first chunk. Run by the driver in a
/// `dev` profile build under gdb; this process is expected to die of a stack overflow on the pinned
/// dependency. exit 0 = completed with correct results, 1 = wrong result, (signal) = crashed.
pub fn c07_k2_child(a: &Args) -> i32 {
    let which = a.get("file").unwrap_or("val").to_string();
    // --size N probes the fixed-size settings below two chunks (repaired by F6), --permille P the K2 region
    let buf = match a.get("size") {
        Some(sz) => Buf::Size(sz.parse().unwrap_or(0)),
        None => Buf::PerMille(a.get_u64("permille", 500) as u16),
    };
    let mut cfg = default_bufs(Buckets::Size(64));
    match which.as_str() {
        "key" => cfg.key = buf,
        "htx" => {
            cfg.htx = buf;
            cfg.buckets = Buckets::Size(65536);
        }
        _ => cfg.val = buf,
    }
    let dir = a.scratch.join("k2");
    let _ = std::fs::remove_dir_all(&dir);
    let db = abyssiniandb::open_file(&dir).unwrap();
    let mut m = db.db_map_bytes_with_params("m", cfg.params()).unwrap();
    use abyssiniandb::DbXxx;
    let mut model = Model::new();
    for i in 0..400u32 {
        let k = if which == "key" { crate::util::gen_bytes(700, i, 1) } else { format!("k{i}").into_bytes() };
        let v = crate::util::gen_bytes(if which == "val" { 1000 } else { 10 }, i, 0);
        m.put(&k[..], &v).unwrap();
        model.insert(k, v);
    }
    for (k, v) in model.iter() {
        if m.get(&k[..]).unwrap().as_ref() != Some(v) {
            println!("K2-CHILD wrong result for key {}", crate::util::show_bytes(k));
            return 1;
        }
    }
    // (fixed-size settings only) the same map opened again with the same small buffer and a request for a small table:
    // the stored table size counts, and so must whatever the buffer budget is derived from
    if a.get("size").is_some() {
        drop(m);
        drop(db);
        let mut cfg2 = cfg;
        cfg2.buckets = Buckets::Size(8);
        let db = abyssiniandb::open_file(&dir).unwrap();
        let mut m = db.db_map_bytes_with_params("m", cfg2.params()).unwrap();
        for (k, v) in model.iter() {
            if m.get(&k[..]).unwrap().as_ref() != Some(v) {
                println!("K2-CHILD wrong result after reopen for key {}", crate::util::show_bytes(k));
                return 1;
            }
        }
        for i in 400..500u32 {
            let k = format!("k{i}").into_bytes();
            m.put(&k[..], b"later").unwrap();
        }
    }
    println!("K2-CHILD completed");
    0
}

// ---------------------------------------------------------------- C14

/// batches over collision chains of records that fill their slots exactly, while both files cross the 16 KiB offset
/// width: one call of the batch relocates records (and relinks their chain neighbours) that later calls of the same
/// batch work on. Element-wise puts and the batch must end in the same map.
fn c14_exact_fit_history(rng: &mut Rng, n_table: u64, kt: &str) -> History {
    let nkeys = 1300usize;
    let mut keys: Vec<Vec<u8>> = Vec::new();
    for i in 0..nkeys as u32 {
        let k = match kt {
            "string" => format!("k{:0w$}", i, w = [10usize, 10, 9, 17][i as usize % 4]).into_bytes(), // 11, 11, 10, 18 bytes
            _ => {
                let mut k = format!("b{:0w$}", i, w = [10usize, 9, 10, 17][i as usize % 4]).into_bytes();
                k[1] = 0xF0 | (i % 7) as u8;
                k
            }
        };
        keys.push(k);
    }
    let mut ops = Vec::new();
    for i in 0..nkeys {
        ops.push(Op::Put(i, ValSpec { len: [100u32, 14, 40][i % 3], seed: i as u32, kind: if kt == "string" { 1 } else { 0 } }));
    }
    let kind = if kt == "string" { 1 } else { 0 };
    for round in 0..14u32 {
        // unsorted batch of early and late keys, no repeats
        let mut ks: Vec<usize> = Vec::new();
        let n = rng.range(20, 120) as usize;
        while ks.len() < n {
            let k = if rng.chance(2, 3) { rng.below(260) as usize } else { rng.below(nkeys as u64) as usize };
            if !ks.contains(&k) {
                ks.push(k);
            }
        }
        let vals: Vec<(usize, ValSpec)> = ks.iter().map(|&k| (k, ValSpec { len: 200 + 37 * round + (k % 5) as u32, seed: round * 1000 + k as u32, kind })).collect();
        ops.push(if kt == "string" && round % 2 == 1 { Op::BulkPutStr(vals) } else { Op::BulkPut(vals) });
        if round % 4 == 3 {
            ops.push(Op::BulkDel(ks.iter().step_by(3).copied().collect()));
        }
        ops.push(Op::BulkGet(ks));
    }
    ops.push(Op::Flush);
    History { kt: kt.into(), cfg: default_bufs(Buckets::Size(n_table)), keys, ops, origin: format!("c14 batches over exact-fit collision chains, table {n_table}, {kt}") }
}

/// an empty map loaded by one `put_from_iter` of more than a thousand pairs in which keys repeat (the last pair of a
/// key wins, exactly as with element-wise puts), then more batches
fn c14_bulk_load_history(rng: &mut Rng, kt: &str, ed: &Edges) -> History {
    let mut p = Profile::base(700, 0);
    p.max_key = 40;
    let mut gen = Gen::new(rng.next(), ed);
    let keys = match kt {
        "u64" => gen.keys::<abyssiniandb::DbU64>(&p),
        "i64" => gen.keys::<abyssiniandb::DbI64>(&p),
        "vu64" => gen.keys::<abyssiniandb::DbVu64>(&p),
        "string" => gen.keys::<abyssiniandb::DbString>(&p),
        _ => gen.keys::<DbBytes>(&p),
    };
    let n = keys.len();
    let kind = if kt == "string" { 1 } else { 0 };
    let mut ops = Vec::new();
    let batch = |rng: &mut Rng, len: usize| -> Vec<(usize, ValSpec)> { (0..len).map(|j| (rng.below(n as u64) as usize, ValSpec { len: (j % 40) as u32, seed: rng.next() as u32, kind })).collect() };
    let first = 1024 + rng.below(900) as usize;
    ops.push(Op::PutIter(batch(rng, first)));
    ops.push(Op::Len);
    ops.push(Op::Iter(0, usize::MAX));
    ops.push(Op::BulkDel((0..n).step_by(3).collect()));
    ops.push(Op::PutIter(batch(rng, 1100)));
    ops.push(Op::BulkGet((0..n).step_by(2).collect()));
    ops.push(Op::Len);
    History { kt: kt.into(), cfg: default_bufs(Buckets::Size(*rng.pick(&[1024u64, 64, 4096]))), keys, ops, origin: format!("c14 empty map loaded by one put_from_iter with repeated keys, {kt}") }
}

/// long keys (16 KiB and more) of equal length that differ only in their last bytes, all in one bucket chain
fn c14_long_tail_history(rng: &mut Rng, kt: &str) -> History {
    let mut keys: Vec<Vec<u8>> = Vec::new();
    for (j, len) in [16384usize, 16384 + 5, 16384 + 300, 32768, 40000, 20000].into_iter().enumerate() {
        let base = crate::util::gen_bytes(len, 77 + j as u32, if kt == "string" { 1 } else { 0 });
        keys.push(base.clone());
        // same length; differs in the last byte / in a byte of the last partial 16-KiB block / in the first byte
        let mut a = base.clone();
        *a.last_mut().unwrap() ^= 1;
        keys.push(a);
        let mut b = base.clone();
        let at = (len / 16384) * 16384;
        let at = if at >= len { len - 2 } else { at };
        b[at] ^= 2;
        keys.push(b);
        let mut c = base.clone();
        c[0] ^= 4;
        keys.push(c);
    }
    if kt == "string" {
        for k in keys.iter_mut() {
            for x in k.iter_mut() {
                *x = b' ' + (*x % 95);
            }
        }
        keys.sort();
        keys.dedup();
    }
    let n = keys.len();
    let kind = if kt == "string" { 1 } else { 0 };
    let mut ops = Vec::new();
    let mut order: Vec<usize> = (0..n).collect();
    for i in (1..n).rev() {
        order.swap(i, rng.below(i as u64 + 1) as usize);
    }
    ops.push(Op::BulkPut(order.iter().map(|&k| (k, ValSpec { len: 10 + k as u32, seed: k as u32, kind })).collect()));
    ops.push(Op::Len);
    ops.push(Op::BulkGet((0..n).collect()));
    ops.push(Op::PutIter(order.iter().rev().map(|&k| (k, ValSpec { len: 40 + k as u32, seed: 100 + k as u32, kind })).collect()));
    ops.push(Op::BulkGet((0..n).rev().collect()));
    ops.push(Op::BulkDel((0..n).step_by(2).collect()));
    ops.push(Op::Len);
    ops.push(Op::BulkGet((0..n).collect()));
    for k in (0..n).step_by(2) {
        ops.push(Op::Put(k, ValSpec { len: 5, seed: 1, kind }));
    }
    ops.push(Op::BulkGet((0..n).collect()));
    History { kt: kt.into(), cfg: default_bufs(Buckets::Size(1)), keys, ops, origin: format!("c14 long keys differing in their tails, one chain, {kt}") }
}

/// values of more than 1 MiB that are not valid UTF-8 and have a two-byte character across every multiple of 64 KiB
/// and of 1 MiB: the string getters must give what `String::from_utf8_lossy` gives for the whole value
fn c14_long_string_history(kt: &str) -> History {
    let keys: Vec<Vec<u8>> = (0..5u8).map(|i| if kt == "u64" || kt == "i64" { (i as u64 + 1000).to_le_bytes().to_vec() } else if kt == "vu64" { vec![i + 1] } else { format!("text{i}").into_bytes() }).collect();
    let lens = [1_048_586u32, 2_097_155, 70_000, 3_145_800, 65_537];
    let mut ops = Vec::new();
    for (k, &l) in lens.iter().enumerate() {
        ops.push(Op::Put(k, ValSpec { len: l, seed: k as u32, kind: 3 }));
    }
    for k in 0..5 {
        ops.push(Op::GetStr(k));
    }
    ops.push(Op::BulkGetStr(vec![3, 0, 4, 1, 2]));
    ops.push(Op::DelStr(3));
    ops.push(Op::BulkDelStr(vec![1, 0]));
    ops.push(Op::BulkGetStr(vec![0, 1, 2, 3, 4]));
    History { kt: kt.into(), cfg: default_bufs(Buckets::Size(8)), keys, ops, origin: format!("c14 long values that are not valid UTF-8 through the string getters, {kt}") }
}

pub fn c14(a: &Args) -> Ctx {
    let mut ctx = Ctx::new("C14", &["C14"], &a.replay_dir, &a.shard_name());
    let ed = edges();
    let mut rng = Rng::new(a.shard_seed() ^ 0xC14);
    let n_hist = a.get_u64("histories", 3) as usize;
    let n_ops = a.get_u64("ops", 1500) as usize;
    let mon = Mon::default();
    if a.shard % 5 == 2 {
        let h = c14_exact_fit_history(&mut rng, [1u64, 8, 64, 1024][(a.shard / 5) % 4], if (a.shard / 5) % 2 == 0 { "bytes" } else { "string" });
        ctx.count("exact_fit_chain_histories", 1);
        let mon = Mon { final_sweep: true, ..Default::default() };
        if run_and_record(a, &h, &mon, &mut ctx, "xf") {
            return ctx;
        }
    }
    if a.shard % 5 == 0 {
        let h = c14_long_string_history(KT_NAMES[(a.shard / 5) % 5]);
        ctx.count("long_string_histories", 1);
        if run_and_record(a, &h, &Mon::default(), &mut ctx, "ls") {
            return ctx;
        }
    }
    if a.shard % 5 == 3 {
        let h = c14_bulk_load_history(&mut rng, KT_NAMES[(a.shard / 5) % 5], &ed);
        ctx.count("bulk_load_histories", 1);
        if run_and_record(a, &h, &Mon { final_sweep: true, ..Default::default() }, &mut ctx, "bl") {
            return ctx;
        }
    }
    if a.shard % 5 == 4 {
        let h = c14_long_tail_history(&mut rng, if (a.shard / 5) % 2 == 0 { "bytes" } else { "string" });
        ctx.count("long_tail_histories", 1);
        if run_and_record(a, &h, &Mon::default(), &mut ctx, "lt") {
            return ctx;
        }
    }
    for i in 0..n_hist {
        let kt = KT_NAMES[(a.shard + i) % 5];
        let mut p = Profile::base(*rng.pick(&[20usize, 100, 400]), n_ops);
        p.w_bulk = 120;
        p.w_str = 120;
        p.w_sync = 2;
        p.max_val = 3000;
        p.max_key = 300;
        let cfg = default_bufs(Cfg::random_buckets(&mut rng, false));
        let mut gen = Gen::new(rng.next(), &ed);
        let h = gen_history_kt(kt, &mut gen, &p, cfg, &format!("c14 shard={} i={i}", a.shard));
        let before = ctx.counters.get("batch.unsorted").copied().unwrap_or(0);
        let keep = ctx.nontrivial.clone();
        let v = run_and_record(a, &h, &mon, &mut ctx, &format!("{i}"));
        let after = ctx.counters.get("batch.unsorted").copied().unwrap_or(0);
        // non-trivial for this property = the history issued unsorted batches (not: took a relocation path)
        ctx.nontrivial = keep;
        let d = crate::util::digest64(3, h.origin.as_bytes());
        ctx.digests.insert(d);
        if after > before {
            ctx.nontrivial.insert(d);
        }
        if v {
            break;
        }
    }
    ctx
}

// ---------------------------------------------------------------- C17

pub fn c17(a: &Args) -> Ctx {
    let mut ctx = Ctx::new("C17", &["C17"], &a.replay_dir, &a.shard_name());
    let ed = edges();
    let mut rng = Rng::new(a.shard_seed() ^ 0xC17);
    let n_hist = a.get_u64("histories", 3) as usize;
    let n_ops = a.get_u64("ops", 2500) as usize;
    let mon = Mon { decode_at_sync: true, stats_at_sync: true, ..Default::default() };
    if a.shard == 0 {
        let mut h = regression_histories().into_iter().find(|h| h.origin.starts_with("regression D4")).unwrap();
        h.ops.push(Op::Flush);
        if run_and_record(a, &h, &mon, &mut ctx, "reg") {
            return ctx;
        }
    }
    for i in 0..n_hist {
        let kt = pick_kt(&mut rng, 40);
        let mut p = Profile::base(*rng.pick(&[5usize, 30, 300]), n_ops);
        p.w_sync = 25;
        p.w_stats = 5;
        p.large_pct = *rng.pick(&[10u32, 30, 50]);
        p.max_val = 140_000;
        let cfg = default_bufs(Cfg::random_buckets(&mut rng, false));
        let mut gen = Gen::new(rng.next(), &ed);
        let h = gen_history_kt(kt, &mut gen, &p, cfg, &format!("c17 shard={} i={i}", a.shard));
        if run_and_record(a, &h, &mon, &mut ctx, &format!("{i}")) {
            break;
        }
    }
    ctx
}

// ---------------------------------------------------------------- sanitizer workload (Miri / valgrind)

/// a compact C01/C09-style workload for the UB interpreters: small, but reaches relocation, relink,
/// large-slot reuse, chunk-crossing values, eviction and every iterator
pub fn sanitizer_workload(a: &Args) -> Ctx {
    let prop = a.get("prop").unwrap_or("C01").to_string();
    let own: Vec<&'static str> = if prop == "C09" { vec!["C09", "C01"] } else { vec!["C01"] };
    let mut ctx = Ctx::new(&prop, &own, &a.replay_dir, &a.shard_name());
    let ed = edges();
    let mut rng = Rng::new(a.shard_seed() ^ 0x5A7);
    let n_ops = a.get_u64("ops", 300) as usize;
    let mon = Mon { get_after_put: true, final_sweep: true, ..Default::default() };
    let mut p = Profile::base(12, n_ops);
    p.max_val = a.get_u64("max_val", 20_000) as u32;
    p.max_key = 300;
    p.large_pct = 25;
    p.w_sync = 5;
    p.w_reopen = 3;
    p.w_iter = 10;
    p.w_stats = 5;
    p.w_bulk = 10;
    let cfg = Cfg { buckets: Buckets::Size(*rng.pick(&[1u64, 2, 8, 128])), key: Buf::PerMille(1000), val: if rng.chance(1, 2) { Buf::Auto } else { Buf::Size(262144) }, htx: Buf::PerMille(1000) };
    let mut gen = Gen::new(rng.next(), &ed);
    let h = gen_history_kt("bytes", &mut gen, &p, cfg, &format!("sanitizer workload shard={}", a.shard));
    run_and_record(a, &h, &mon, &mut ctx, "san");
    if prop == "C09" {
        super::c09::sweep_small(a, &mut ctx, a.get_u64("sweep_max", 300) as u32);
    }
    ctx
}

#[allow(dead_code)]
fn _unused(_: BTreeMap<u8, u8>, _: HashSet<u8>, _: &[&str; 7]) {
    let _ = ITER_FLAVOURS;
    let _ = run_ops::<DbBytes>;
}
