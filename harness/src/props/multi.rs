//! C15 (read-only calls have no side effects) and C18 (the image is a function of the update history).
use super::*;
use crate::ops::ITER_FLAVOURS;
use crate::session::run_ops;

fn default_bufs(b: Buckets) -> Cfg {
    Cfg { buckets: b, key: Buf::PerMille(1000), val: Buf::Auto, htx: Buf::PerMille(1000) }
}

/// a random read-only call
pub fn read_only_op(rng: &mut Rng, pool: usize) -> Op {
    let k = rng.below(pool.max(1) as u64) as usize;
    match rng.below(16) {
        0..=3 => Op::Get(k),
        4 | 5 => Op::Has(k),
        6 => Op::Len,
        7 => Op::IsEmpty,
        8 => Op::GetStr(k),
        9 => Op::BulkGet((0..rng.below(12)).map(|_| rng.below(pool.max(1) as u64) as usize).collect()),
        10 | 11 => Op::Iter(rng.below(ITER_FLAVOURS.len() as u64) as usize, if rng.chance(1, 3) { rng.below(5) as usize } else { usize::MAX }),
        12 => {
            if rng.chance(1, 2) {
                Op::IterStep(rng.range(1, 6) as usize)
            } else {
                Op::Stats
            }
        }
        13 => Op::ReadFill,
        14 => rng.pick(&[Op::Flush, Op::SyncAll, Op::SyncData]).clone(),
        _ => rng.pick(&[Op::DbSyncAll, Op::DbSyncData, Op::BulkGetStr(vec![k])]).clone(),
    }
}

// ---------------------------------------------------------------- C15

/// close; snapshot bytes; reopen (possibly with other buffer parameters); read-only session; close; compare
fn c15_cycle<K: Kt>(_a: &Args, s: &mut Session<K>, h: &History, upto: usize, n_ro: usize, ctx: &mut Ctx, rng: &mut Rng) -> Option<Stop> {
    let mon = Mon::default();
    s.close();
    let dir = s.dir.clone();
    let before = match Image::read(&dir, "m") {
        Ok(i) => i,
        Err(e) => return Some(Stop::Harness(e.to_string())),
    };
    // the read-only session may open the map with any other parameters (table size parameters are ignored for an
    // existing map, buffer sizes are free): none of that may change the files either
    let cfg = match rng.below(3) {
        0 => h.cfg,
        1 => Cfg { buckets: h.cfg.buckets, key: Cfg::random_buf(rng), val: Cfg::random_buf(rng), htx: Cfg::random_buf(rng) },
        _ => Cfg::random_reopen(rng),
    };
    if let Err(e) = s.open(&cfg) {
        return Some(ctx.classify(finding(&["C02"], "reopen", upto, e)));
    }
    // one call in five repeats the lookup before it (the same key asked for twice and three times in a row)
    let mut ro_ops: Vec<Op> = Vec::with_capacity(n_ro);
    for _ in 0..n_ro {
        let prev = ro_ops.last().cloned();
        match prev {
            Some(p @ (Op::Get(_) | Op::Has(_) | Op::GetStr(_) | Op::BulkGet(_))) if rng.chance(1, 5) => ro_ops.push(p),
            _ => ro_ops.push(read_only_op(rng, h.keys.len())),
        }
    }
    let ro = History { kt: h.kt.clone(), cfg, keys: h.keys.clone(), ops: ro_ops, origin: "read-only session".into() };
    // call by call: an observing monitor (iteration, statistics) does not stop a history for a finding that
    // belongs to another property, so the foreign-findings counter is watched to learn which call went wrong
    let mut r = crate::session::RunResult { stop: None, calls: 0 };
    let mut bits = Rng::new(17);
    for (j, op) in ro.ops.iter().enumerate() {
        let before = ctx.counters.get("foreign_findings").copied().unwrap_or(0);
        r.calls = j + 1;
        // (odd call numbers: traversals are interleaved with other reads between their steps)
        match s.apply(2 * j + 1, op, &ro.keys, &mon, ctx, bits.next()) {
            Err(f) => {
                r.stop = Some(ctx.classify(f));
                break;
            }
            Ok(()) => {
                if ctx.counters.get("foreign_findings").copied().unwrap_or(0) > before {
                    let f = ctx.foreign.last().cloned().unwrap_or_else(|| finding(&["C04"], "iteration", j, "a read-only call answered wrongly".into()));
                    r.stop = Some(Stop::Foreign(f));
                    break;
                }
            }
        }
    }
    s.close();
    ctx.count("read_only_sessions", 1);
    ctx.count("read_only_calls", r.calls as u64);
    ctx.count(&format!("session_at_item_count.{}", if s.model.len() <= 16 { format!("{:02}", s.model.len()) } else { "17plus".into() }), 1);
    if let Some(st) = r.stop {
        if matches!(st, Stop::Violation(_) | Stop::Harness(_)) {
            return Some(st);
        }
        // a read-only call answered wrongly. If the same call is right on a freshly opened map, the earlier
        // read-only calls of this session changed what the map says: a side effect on the logical contents (C15).
        // If it is wrong there as well it belongs to the property of that call (C01/C04/C14/C17), not to C15.
        let failing = r.calls.saturating_sub(1);
        if let (Stop::Foreign(f), Some(op)) = (&st, ro.ops.get(failing)) {
            if !matches!(op, Op::IterStep(_)) && s.open(&cfg).is_ok() {
                let single = History { kt: h.kt.clone(), cfg, keys: h.keys.clone(), ops: vec![op.clone()], origin: "replay of the failing read-only call".into() };
                let mut scratch = Ctx::new("C15", &[], &ctx.replay_dir, "probe");
                let again = run_ops(s, &single, 0, &mon, &mut scratch);
                s.close();
                if again.stop.is_none() {
                    let mut hh = h.clone();
                    hh.ops.truncate(upto);
                    hh.ops.push(Op::Reopen(cfg));
                    hh.ops.extend(ro.ops.iter().take(failing + 1).cloned());
                    let f2 = finding(&["C15"], "side_effect", upto, format!("the read-only call `{}` answers correctly on a freshly opened map but wrongly after {} other read-only calls of the same session: {}", op.text(), failing, f.msg));
                    let st2 = ctx.classify(f2);
                    ctx.record_stop(st2, Some(&hh));
                    return Some(Stop::Harness("stop".into()));
                }
            } else if let (Stop::Foreign(f), Some(Op::IterStep(_))) = (&st, ro.ops.get(failing)) {
                // an iterator advanced across other read-only calls lost or repeated items: those calls disturbed it
                let mut hh = h.clone();
                hh.ops.truncate(upto);
                hh.ops.push(Op::Reopen(cfg));
                hh.ops.extend(ro.ops.iter().take(failing + 1).cloned());
                let f2 = finding(&["C15", "C04"], "side_effect", upto, format!("a traversal interleaved with other read-only calls went wrong: {}", f.msg));
                let st2 = ctx.classify(f2);
                ctx.record_stop(st2, Some(&hh));
                return Some(Stop::Harness("stop".into()));
            }
        }
        ctx.record_stop(st, None);
    }
    let after = match Image::read(&dir, "m") {
        Ok(i) => i,
        Err(e) => return Some(Stop::Harness(e.to_string())),
    };
    ctx.count("file_bytes_compared", after.total_len().min(1 << 32));
    if let Some(d) = before.diff(&after) {
        let mut hh = h.clone();
        hh.ops.truncate(upto);
        hh.ops.push(Op::Reopen(cfg));
        hh.ops.extend(ro.ops.iter().cloned());
        let f = finding(&["C15"], "side_effect", upto, format!("after a session of {} read-only calls ({} items, table {} buckets, buffers {}) the files differ from before: {d}", r.calls, s.model.len(), s.n_buckets, cfg.text()));
        let st = ctx.classify(f);
        ctx.record_stop(st, Some(&hh));
        return Some(Stop::Harness("stop".into()));
    }
    if before.htx.len() < 4_000_000 {
        let dg = before.digest();
        ctx.digests.insert(dg);
        if upto > 0 {
            ctx.nontrivial.insert(dg);
        }
    }
    // continue the update history
    if let Err(e) = s.open(&h.cfg) {
        return Some(ctx.classify(finding(&["C02"], "reopen", upto, e)));
    }
    None
}

fn c15_case<K: Kt>(a: &Args, h: &History, ctx: &mut Ctx, rng: &mut Rng) -> Option<Stop> {
    let dir = a.scratch.join("c15");
    let _ = std::fs::remove_dir_all(&dir);
    let mon = Mon::default();
    let mut s = match Session::<K>::create(&dir, "m", &h.cfg) {
        Ok(s) => s,
        Err(e) => return Some(ctx.classify(finding(&["C07"], "create", 0, e))),
    };
    let n_ro = a.get_u64("ro_ops", 150) as usize;
    let mut bits = Rng::new(5);
    let mut next_cycle = 0usize; // the freshly created, never updated map is a state too
    for (i, op) in h.ops.iter().enumerate() {
        if i == next_cycle {
            if let Some(st) = c15_cycle(a, &mut s, h, i, n_ro / 3, ctx, rng) {
                return if matches!(&st, Stop::Harness(m) if m == "stop") { None } else { Some(st) };
            }
            next_cycle = i + rng.range(20, 260) as usize;
        }
        if let Err(f) = s.apply(i, op, &h.keys, &mon, ctx, bits.next()) {
            return Some(ctx.classify(f));
        }
    }
    // the final state gets the long session
    if let Some(st) = c15_cycle(a, &mut s, h, h.ops.len(), n_ro, ctx, rng) {
        return if matches!(&st, Stop::Harness(m) if m == "stop") { None } else { Some(st) };
    }
    s.close();
    ctx.count(&format!("state_class.{}", if s.model.is_empty() { if h.ops.iter().any(|o| o.is_update()) { "emptied_again" } else { "empty" } } else { "populated" }), 1);
    let _ = std::fs::remove_dir_all(&dir);
    None
}

pub fn c15(a: &Args) -> Ctx {
    let mut ctx = Ctx::new("C15", &["C15"], &a.replay_dir, &a.shard_name());
    let ed = edges();
    let mut rng = Rng::new(a.shard_seed() ^ 0xC15);
    let n_hist = a.get_u64("histories", 6) as usize;
    let n_ops = a.get_u64("ops", 800) as usize;
    let tables: [u64; 12] = [1, 2, 4, 7, 8, 64, 128, 256, 1000, 4096, 65536, 16];
    for i in 0..n_hist {
        let kt = pick_kt(&mut rng, 50);
        let class = (a.shard + i) % 4;
        let mut p = Profile::base(*rng.pick(&[3usize, 8, 12, 40, 300]), match class { 0 => 0, _ => n_ops });
        p.large_pct = 20;
        p.max_val = 30_000;
        let n = tables[(a.shard * 5 + i) % tables.len()];
        let cfg = default_bufs(if rng.chance(1, 40) && a.thorough { Buckets::Default } else { Buckets::Size(n) });
        let mut gen = Gen::new(rng.next(), &ed);
        let mut h = gen_history_kt(kt, &mut gen, &p, cfg, &format!("c15 state shard={} i={i} class={class}", a.shard));
        if class == 1 {
            // emptied again
            for k in 0..h.keys.len() {
                h.ops.push(Op::Del(k));
            }
        }
        if class == 2 {
            // a small population of an exact size 0..16 (every small item count occurs)
            let target = (a.shard * 7 + i) % 17;
            for k in 0..h.keys.len() {
                if k < target {
                    h.ops.push(Op::Put(k, ValSpec { len: (k * 5) as u32, seed: k as u32, kind: 0 }));
                } else {
                    h.ops.push(Op::Del(k));
                }
            }
        }
        if class == 3 && !h.keys.is_empty() {
            // the newest record of each file is freed again and leaves a free slot of the smallest "large" size at the
            // very end of the file (a state of its own for whatever looks at the tail of a file when it is opened)
            let k = h.keys.len() - 1;
            let l = *rng.pick(&[1000u32, 1005, 990, 1013]);
            h.ops.push(Op::Del(k));
            h.ops.push(Op::Put(k, ValSpec { len: l, seed: 3, kind: 0 }));
            h.ops.push(Op::Del(k));
        }
        ctx.evaluations += 1;
        ctx.count(&format!("tables.{}", table_class(cfg.buckets.expected_n())), 1);
        let mut r2 = rng.fork();
        fn go<K: Kt>(a: &Args, h: &History, ctx: &mut Ctx, rng: &mut Rng) -> Option<Stop> {
            c15_case::<K>(a, h, ctx, rng)
        }
        let stop = with_kt!(kt, go(a, &h, &mut ctx, &mut r2));
        ctx.drain_notes();
        if ctx.samples.len() < 2 {
            let mut s = J::obj();
            s.set("origin", J::s(&h.origin));
            s.set("cfg", J::s(h.cfg.text()));
            s.set("update_ops", J::u(h.ops.len() as u64));
            s.set("then", J::s("close; snapshot bytes; reopen; random read-only session (get/includes/len/bulk_get/iterators/statistics/read_fill_buffer/flush/sync); close; compare bytes"));
            ctx.samples.push(s);
        }
        if let Some(stop) = stop {
            let v = matches!(stop, Stop::Violation(_));
            ctx.record_stop(stop, Some(&h));
            if v {
                break;
            }
        }
        if !ctx.violations.is_empty() {
            break;
        }
    }
    ctx
}

// ---------------------------------------------------------------- C18

/// child: run a history file in a directory, close, exit 0 (3 = a call failed)
pub fn c18_child(a: &Args) -> i32 {
    let Some(text) = a.get("history").and_then(|p| std::fs::read_to_string(p).ok()) else { return 2 };
    let Some((_p, h)) = History::from_text(&text) else { return 2 };
    let dir = PathBuf::from(a.get("dir").unwrap_or("/nonexistent"));
    let mut ctx = Ctx::new("C18", &[], &a.scratch, "child");
    // update calls must succeed; a spliced read-only call that answers wrongly does not end the run (this process is
    // about the files): it is reported through exit code 4 and the parent still compares the images
    fn go<K: Kt>(dir: &Path, h: &History, ctx: &mut Ctx) -> i32 {
        let _ = std::fs::remove_dir_all(dir);
        let mut s = match Session::<K>::create(dir, "m", &h.cfg) {
            Ok(s) => s,
            Err(e) => {
                println!("create: {e}");
                return 2;
            }
        };
        let mon = Mon::default();
        let mut bits = Rng::new(h.ops.len() as u64 ^ 0x5EED);
        let mut wrong_reads = 0u32;
        for (i, op) in h.ops.iter().enumerate() {
            if let Err(f) = s.apply(i, op, &h.keys, &mon, ctx, bits.next()) {
                // a call that did not return (panic, hang) ends the run; a call that returned something else than the
                // model expects does not: this process is about the files the history leaves behind
                let died = f.monitor == "panic" || f.monitor == "hang" || matches!(op, Op::Reopen(_));
                if died {
                    println!("call {} failed: {}", f.at, f.msg);
                    return 3;
                }
                wrong_reads += 1;
                if wrong_reads == 1 {
                    println!("call {} answered wrongly (tolerated, the run goes on): {}", f.at, f.msg);
                }
            }
        }
        s.close();
        if wrong_reads > 0 {
            4
        } else {
            0
        }
    }
    let kt = h.kt.clone();
    with_kt!(kt.as_str(), go(&dir, &h, &mut ctx))
}

pub fn c18(a: &Args) -> Ctx {
    let mut ctx = Ctx::new("C18", &["C18"], &a.replay_dir, &a.shard_name());
    let ed = edges();
    let mut rng = Rng::new(a.shard_seed() ^ 0xC18);
    let n_hist = a.get_u64("histories", 4) as usize;
    let n_ops = a.get_u64("ops", 2500) as usize;
    let exe = a.get("child-exe").map(PathBuf::from).or_else(|| std::env::current_exe().ok()).unwrap();
    for i in 0..n_hist {
        let kt = pick_kt(&mut rng, 40);
        let mut p = Profile::base(*rng.pick(&[5usize, 50, 400]), n_ops);
        p.w_reopen = 1;
        p.w_bulk = 5;
        p.large_pct = 20;
        p.max_val = 140_000;
        let cfg = Cfg { buckets: Cfg::random_buckets(&mut rng, false), key: Cfg::random_buf(&mut rng), val: Cfg::random_buf(&mut rng), htx: Cfg::random_buf(&mut rng) };
        let mut gen = Gen::new(rng.next(), &ed);
        let mut ha = gen_history_kt(kt, &mut gen, &p, cfg, &format!("c18 run A shard={} i={i}", a.shard));
        // one history per eight shards lives in the wide regime (files beyond 16 MiB, long keys, values of 1 and 2 MiB)
        let (kt, cfg) = if i == 0 && a.shard % 8 == 5 {
            ha = super::bigreg::history_for("bytes", "A", a.shard_seed(), false);
            ctx.count("wide_regime_histories", 1);
            ("bytes", ha.cfg)
        } else {
            (kt, cfg)
        };
        // one history per eight shards is the D2b regression (a new key takes over the slot of a record that just moved)
        let (kt, cfg) = if i == 0 && a.shard % 8 == 1 {
            ha = regression_histories().into_iter().filter(|h| h.origin.starts_with("regression D2b")).nth((a.shard / 8) % 2).unwrap();
            ("bytes", ha.cfg)
        } else {
            (kt, cfg)
        };
        // one history per eight shards is the "lookup miss before a head relocation" pair: run B differs from run A by one
        // `includes_key` of a key that is absent, issued right before the overwrite that moves the head record of
        // that key's chain (whatever a failed lookup remembers about the chain must not survive the move)
        let mut miss_before: Option<usize> = None;
        let (kt, cfg) = if i == 0 && a.shard % 8 == 2 {
            let nk = 10usize;
            let mut keys: Vec<Vec<u8>> = (0..nk as u32).map(|j| format!("key{j:07}").into_bytes()).collect(); // 10 bytes: exactly full 16-byte records in a chain
            keys.push(b"absent0000".to_vec());
            let mut ops = Vec::new();
            for k in 0..nk {
                ops.push(Op::Put(k, ValSpec { len: 20, seed: k as u32, kind: 0 }));
            }
            for (j, l) in [9000u32, 9500, 10_000].into_iter().enumerate() {
                ops.push(Op::Put(0, ValSpec { len: l, seed: 50 + j as u32, kind: 0 }));
            }
            // heads of the chain (most recent inserts) get values that move behind 16 KiB: their records move too
            for k in [nk - 1, nk - 2, nk - 3] {
                ops.push(Op::Put(k, ValSpec { len: 300, seed: 70 + k as u32, kind: 0 }));
                if k == nk - 1 {
                    miss_before = Some(ops.len() - 1);
                }
                ops.push(Op::Put(nk, ValSpec { len: 20 + k as u32, seed: 80, kind: 0 }));
                ops.push(Op::Del(nk));
            }
            ops.push(Op::Put(nk, ValSpec { len: 21, seed: 81, kind: 0 }));
            ha = History { kt: "bytes".into(), cfg: Cfg::small([1u64, 2][(a.shard / 8) % 2]), keys, ops, origin: "c18 directed: lookup miss before a head relocation".into() };
            ctx.count("directed_miss_pairs", 1);
            ("bytes", ha.cfg)
        } else {
            (kt, cfg)
        };
        // run A: updates only (plus reopen with the same parameters); run B: same updates, read-only calls and extra flushes spliced in
        ha.ops.retain(|o| o.is_update() || matches!(o, Op::Reopen(_)));
        for o in ha.ops.iter_mut() {
            if let Op::Reopen(c) = o {
                *c = cfg;
            }
        }
        // half of the bulk_delete batches list one of their keys twice (what the call returns for the repeated key is not
        // judged here; both runs then go through the tolerant child process)
        let mut has_dups = false;
        for o in ha.ops.iter_mut() {
            if let Op::BulkDel(ks) | Op::BulkDelStr(ks) = o {
                if ks.len() >= 2 && rng.chance(1, 2) {
                    let d = ks[rng.below(ks.len() as u64) as usize];
                    let at = rng.below(ks.len() as u64 + 1) as usize;
                    ks.insert(at, d);
                    has_dups = true;
                }
            }
        }
        let mut hb = ha.clone();
        hb.origin = format!("c18 run B (spliced) shard={} i={i}", a.shard);
        let mut spliced = Vec::with_capacity(ha.ops.len() * 2);
        let mut n_spliced = 0u64;
        for (oi, o) in ha.ops.iter().enumerate() {
            if let Some(mb) = miss_before {
                // the directed pair: lookups of the absent key only, right before the relocating overwrites
                if oi >= mb && matches!(o, Op::Put(_, v) if v.len == 300) {
                    spliced.push(Op::Has(ha.keys.len() - 1));
                    n_spliced += 1;
                }
                spliced.push(o.clone());
                continue;
            }
            while rng.chance(2, 5) {
                spliced.push(read_only_op(&mut rng, ha.keys.len()));
                n_spliced += 1;
            }
            spliced.push(o.clone());
        }
        hb.ops = spliced;
        let dir_a = a.scratch.join("c18a");
        let dir_b = a.scratch.join("c18b_other_dir");
        ctx.evaluations += 1;
        ctx.count("spliced_read_only_calls", n_spliced);
        if has_dups {
            let hpa = a.scratch.join("c18_a.replay");
            let _ = std::fs::write(&hpa, ha.to_text("C18", None, ""));
            let _ = std::fs::remove_dir_all(&dir_a);
            let out = std::process::Command::new(&exe).args(["c18-child", "--history", &hpa.to_string_lossy(), "--dir", &dir_a.to_string_lossy(), "--scratch", &a.scratch.join("c18ca").to_string_lossy()]).output();
            ctx.count("pairs_with_repeated_keys_in_bulk_delete", 1);
            ctx.count("calls_executed", ha.ops.len() as u64);
            match out {
                Ok(o) if o.status.code() == Some(0) || o.status.code() == Some(4) => {}
                Ok(o) if o.status.code() == Some(3) => {
                    let st = ctx.classify(finding(&["C01"], "child_call_failed", 0, String::from_utf8_lossy(&o.stdout).to_string()));
                    ctx.record_stop(st, Some(&ha));
                    continue;
                }
                Ok(o) => {
                    ctx.inconclusive.push(format!("c18 child (run A) ended with {:?}: {}", o.status, String::from_utf8_lossy(&o.stderr)));
                    continue;
                }
                Err(e) => {
                    ctx.inconclusive.push(format!("spawn: {e}"));
                    continue;
                }
            }
        } else {
            let res = run_history_kt(kt, &dir_a, &ha, &Mon::default(), &mut ctx);
            ctx.count("calls_executed", res.calls as u64);
            if let Some(st) = res.stop {
                ctx.record_stop(st, Some(&ha));
                continue;
            }
        }
        let hpath = a.scratch.join("c18_b.replay");
        let _ = std::fs::write(&hpath, hb.to_text("C18", None, ""));
        let _ = std::fs::remove_dir_all(&dir_b);
        let mut wrong_read_note: Option<String> = None;
        let out = std::process::Command::new(&exe).args(["c18-child", "--history", &hpath.to_string_lossy(), "--dir", &dir_b.to_string_lossy(), "--scratch", &a.scratch.join("c18c").to_string_lossy()]).output();
        match out {
            Ok(o) if o.status.code() == Some(0) => {}
            Ok(o) if o.status.code() == Some(4) => {
                // the second run finished, but one of its spliced read-only calls answered wrongly: the images are
                // compared all the same (if they differ the reads changed what the updates wrote); the wrong answer as
                // such belongs to the property of that call
                wrong_read_note = Some(String::from_utf8_lossy(&o.stdout).trim().to_string());
            }
            Ok(o) if o.status.code() == Some(3) => {
                let st = ctx.classify(finding(&["C01"], "child_call_failed", 0, String::from_utf8_lossy(&o.stdout).to_string()));
                ctx.record_stop(st, Some(&hb));
                continue;
            }
            Ok(o) => {
                ctx.inconclusive.push(format!("c18 child ended with {:?}: {}", o.status, String::from_utf8_lossy(&o.stderr)));
                continue;
            }
            Err(e) => {
                ctx.inconclusive.push(format!("spawn: {e}"));
                continue;
            }
        }
        let (ia, ib) = match (Image::read(&dir_a, "m"), Image::read(&dir_b, "m")) {
            (Ok(x), Ok(y)) => (x, y),
            _ => {
                ctx.inconclusive.push("cannot read images".into());
                continue;
            }
        };
        ctx.count("pairs_compared", 1);
        ctx.count("bytes_compared", ia.total_len());
        let d = ia.digest();
        ctx.digests.insert(d);
        if ha.ops.iter().any(|o| o.is_update()) && n_spliced > 0 {
            ctx.nontrivial.insert(d);
        }
        if ctx.samples.len() < 2 {
            let mut s = J::obj();
            s.set("origin", J::s(&ha.origin));
            s.set("cfg", J::s(cfg.text()));
            s.set("kt", J::s(kt));
            s.set("run_A_first_ops", J::Arr(ha.sample(10).into_iter().map(J::s).collect()));
            s.set("run_B_first_ops", J::Arr(hb.sample(16).into_iter().map(J::s).collect()));
            ctx.samples.push(s);
        }
        if let Some(diff) = ia.diff(&ib) {
            let f = finding(&["C18"], "determinism", ha.ops.len(), format!("the same {} updates with the same parameters ({}) produced different files in a second process/directory with {} read-only calls spliced in: {diff}", ha.ops.len(), cfg.text(), n_spliced));
            let st = ctx.classify(f);
            ctx.record_stop(st, Some(&hb));
            break;
        }
        // (with a repeated key in a bulk_delete batch the harness has no expectation for what the call returns)
        if let Some(note) = wrong_read_note.filter(|_| !has_dups) {
            // same files, yet a read answered wrongly: not a matter of determinism
            let st = ctx.classify(finding(&["C01"], "wrong_read_in_second_run", 0, note));
            ctx.record_stop(st, Some(&hb));
        }
        let _ = std::fs::remove_dir_all(&dir_a);
        let _ = std::fs::remove_dir_all(&dir_b);
    }
    ctx.drain_notes();
    ctx
}
