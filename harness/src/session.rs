//! a database session with its reference model, and the monitors that watch it.
use crate::decoder::{self, Decoded, Image, SlotKind, CLASSES};
use crate::kt::{Cfg, Kt};
use crate::ops::{History, Op, ITER_FLAVOURS};
use crate::util::{show_bytes, J};
use abyssiniandb::filedb::{CheckFileDbMap, FileDb, FileDbMap};
use abyssiniandb::verif_hooks as hooks;
use abyssiniandb::{DbMap, DbXxx, DbXxxBase, DbXxxObjectSafe};
use std::cell::RefCell;
use std::collections::{BTreeMap, BTreeSet, HashMap};
use std::panic::{catch_unwind, AssertUnwindSafe};
use std::path::{Path, PathBuf};

pub type Model = BTreeMap<Vec<u8>, Vec<u8>>;

// ---------------------------------------------------------------- panic capture

thread_local! {
    static LAST_PANIC: RefCell<Option<String>> = RefCell::new(None);
}

pub fn install_panic_hook() {
    std::panic::set_hook(Box::new(|info| {
        let loc = info.location().map(|l| format!("{}:{}", l.file(), l.line())).unwrap_or_default();
        let msg = if let Some(s) = info.payload().downcast_ref::<&str>() {
            s.to_string()
        } else if let Some(s) = info.payload().downcast_ref::<String>() {
            s.clone()
        } else {
            "<non-string panic>".to_string()
        };
        LAST_PANIC.with(|p| *p.borrow_mut() = Some(format!("{msg} @ {loc}")));
    }));
}

/// outcome of a guarded call
pub enum Guard<T> {
    Ok(T),
    /// the step budget was exceeded: a walk that does not terminate
    Hang(String),
    Panic(String),
}

pub const STEP_BUDGET_BASE: u64 = 20_000_000;

/// run one API call under catch_unwind with a step budget
pub fn guarded<T>(budget: u64, f: impl FnOnce() -> T) -> Guard<T> {
    hooks::reset_steps();
    hooks::set_step_budget(Some(budget));
    let r = catch_unwind(AssertUnwindSafe(f));
    hooks::set_step_budget(None);
    match r {
        Ok(v) => Guard::Ok(v),
        Err(_) => {
            let msg = LAST_PANIC.with(|p| p.borrow_mut().take()).unwrap_or_else(|| "panic".into());
            if msg.contains(hooks::STEP_BUDGET_MARKER) {
                Guard::Hang(format!("more than {budget} file-access steps in one call: {msg}"))
            } else {
                Guard::Panic(msg)
            }
        }
    }
}

// ---------------------------------------------------------------- verdict plumbing

#[derive(Clone, Debug)]
pub struct Finding {
    /// properties this finding refutes
    pub owners: &'static [&'static str],
    pub monitor: &'static str,
    pub at: usize,
    pub msg: String,
    /// signature used for known-finding matching (empty: never matches)
    pub signature: String,
}

#[derive(Debug)]
pub enum Stop {
    /// a finding that belongs to one of the properties under check
    Violation(Finding),
    /// a finding that refutes another property: the history cannot continue, not counted here
    Foreign(Finding),
    /// harness-level problem (I/O on scratch dir ...)
    Harness(String),
}

/// counters and evidence collected by one shard
#[derive(Default)]
pub struct Ctx {
    pub prop: String,
    pub own: Vec<&'static str>,
    pub counters: BTreeMap<String, u64>,
    pub digests: BTreeSet<u64>,
    pub nontrivial: BTreeSet<u64>,
    pub samples: Vec<J>,
    pub violations: Vec<(Finding, Option<String>)>,
    pub foreign: Vec<Finding>,
    pub evaluations: u64,
    pub notes_seen: BTreeMap<String, u64>,
    pub inconclusive: Vec<String>,
    pub replay_dir: PathBuf,
    pub shard: String,
}

impl Ctx {
    pub fn new(prop: &str, own: &[&'static str], replay_dir: &Path, shard: &str) -> Ctx {
        Ctx { prop: prop.to_string(), own: own.to_vec(), replay_dir: replay_dir.to_path_buf(), shard: shard.to_string(), ..Default::default() }
    }
    pub fn count(&mut self, k: &str, n: u64) {
        *self.counters.entry(k.to_string()).or_insert(0) += n;
    }
    pub fn max(&mut self, k: &str, n: u64) {
        let e = self.counters.entry(k.to_string()).or_insert(0);
        if n > *e {
            *e = n;
        }
    }
    pub fn owns(&self, f: &Finding) -> bool {
        f.owners.iter().any(|o| self.own.contains(o))
    }
    pub fn classify(&self, f: Finding) -> Stop {
        if self.owns(&f) {
            Stop::Violation(f)
        } else {
            Stop::Foreign(f)
        }
    }
    /// a finding of an observing monitor (decoder, statistics, iteration): stops the history only if the
    /// running check owns it; otherwise it is counted as foreign and the history goes on
    pub fn observe(&mut self, r: Result<(), Finding>) -> Result<(), Finding> {
        match r {
            Ok(()) => Ok(()),
            Err(f) if self.owns(&f) => Err(f),
            Err(f) => {
                self.count("foreign_findings", 1);
                self.count(&format!("foreign.{}", f.monitor), 1);
                if self.foreign.len() < 5 {
                    self.foreign.push(f);
                }
                Ok(())
            }
        }
    }
    pub fn drain_notes(&mut self) {
        for (k, n) in hooks::take_notes() {
            *self.notes_seen.entry(k.to_string()).or_insert(0) += n;
        }
    }
    /// record the end of a history run
    pub fn record_stop(&mut self, stop: Stop, h: Option<&History>) {
        match stop {
            Stop::Violation(f) => {
                let path = h.map(|h| {
                    let p = self.replay_dir.join(format!("{}_{}_{}.replay", self.prop, self.shard, self.violations.len()));
                    let _ = std::fs::create_dir_all(&self.replay_dir);
                    let _ = std::fs::write(&p, h.to_text(&self.prop, Some(f.at), &format!("[{}] {}", f.monitor, f.msg)));
                    p.to_string_lossy().to_string()
                });
                self.violations.push((f, path));
            }
            Stop::Foreign(f) => {
                self.count("foreign_findings", 1);
                if self.foreign.len() < 5 {
                    self.foreign.push(f);
                }
            }
            Stop::Harness(m) => self.inconclusive.push(m),
        }
    }
    pub fn to_json(&self) -> J {
        let mut o = J::obj();
        o.set("prop", J::s(&self.prop));
        o.set("shard", J::s(&self.shard));
        o.set("evaluations", J::u(self.evaluations));
        let mut c = J::obj();
        for (k, v) in &self.counters {
            c.set(k, J::u(*v));
        }
        o.set("counters", c);
        let mut n = J::obj();
        for (k, v) in &self.notes_seen {
            n.set(k, J::u(*v));
        }
        o.set("paths", n);
        o.set("digests", J::Arr(self.digests.iter().map(|d| J::s(format!("{d:016x}"))).collect()));
        o.set("nontrivial", J::Arr(self.nontrivial.iter().map(|d| J::s(format!("{d:016x}"))).collect()));
        o.set("samples", J::Arr(self.samples.clone()));
        o.set(
            "violations",
            J::Arr(
                self.violations
                    .iter()
                    .map(|(f, p)| {
                        let mut v = J::obj();
                        v.set("monitor", J::s(f.monitor));
                        v.set("owners", J::Arr(f.owners.iter().map(|x| J::s(*x)).collect()));
                        v.set("at", J::u(f.at as u64));
                        v.set("msg", J::s(&f.msg));
                        v.set("signature", J::s(&f.signature));
                        v.set("replay", p.as_ref().map(J::s).unwrap_or(J::Null));
                        v
                    })
                    .collect(),
            ),
        );
        o.set(
            "foreign",
            J::Arr(
                self.foreign
                    .iter()
                    .map(|f| {
                        let mut v = J::obj();
                        v.set("monitor", J::s(f.monitor));
                        v.set("owners", J::Arr(f.owners.iter().map(|x| J::s(*x)).collect()));
                        v.set("msg", J::s(&f.msg));
                        v
                    })
                    .collect(),
            ),
        );
        o.set("inconclusive", J::Arr(self.inconclusive.iter().map(J::s).collect()));
        o
    }
}

// ---------------------------------------------------------------- monitors selection

#[derive(Clone, Debug, Default)]
pub struct Mon {
    /// get right after every put, random other key 1 in 4
    pub get_after_put: bool,
    /// at sync points: decode the files and compare (C05 structure+contents, C06 storage)
    pub decode_at_sync: bool,
    /// decode before and after every update (C06 extension rule, C08)
    pub decode_per_call: bool,
    /// at sync points: all iterator flavours (C04)
    pub iterate_at_sync: bool,
    /// at sync points: statistics vs decoder (C17)
    pub stats_at_sync: bool,
    /// at sync points: snapshot the directory while handles are alive, open the copy (C03)
    pub snapshot_at_sync: bool,
    /// after reopen: full comparison through the API (C02)
    pub full_compare_at_reopen: bool,
    /// at the end: get every key of the pool
    pub final_sweep: bool,
    /// at close: decode
    pub decode_at_close: bool,
}

const O_C01: &[&str] = &["C01"];
const O_C02: &[&str] = &["C02"];
const O_C03: &[&str] = &["C03"];
const O_C04: &[&str] = &["C04"];
const O_C05: &[&str] = &["C05"];
const O_C06: &[&str] = &["C06"];
const O_C07: &[&str] = &["C07"];
const O_C14: &[&str] = &["C14"];
const O_C17: &[&str] = &["C17"];
const O_C06_C17: &[&str] = &["C06", "C17"];

pub fn finding(owners: &'static [&'static str], monitor: &'static str, at: usize, msg: String) -> Finding {
    Finding { owners, monitor, at, msg, signature: String::new() }
}

// ---------------------------------------------------------------- the session

pub struct Session<K: Kt> {
    pub dir: PathBuf,
    pub name: String,
    pub db: Option<FileDb>,
    pub map: Option<FileDbMap<K>>,
    /// extra handles kept alive until close (clones, second lookups)
    pub extra: Vec<FileDbMap<K>>,
    pub model: Model,
    pub n_buckets: u64,
    pub budget: u64,
    pub updates_since_sync: u64,
    pub last_decoded: Option<(Image, Decoded)>,
    /// peak number of live entries (for the weak C06 bound)
    pub peak_live: usize,
    /// an iterator kept alive across calls (Op::IterStep): (iterator, keys yielded, still comparable with the model)
    pub live_iter: Option<(abyssiniandb::DbXxxIter<K>, std::collections::HashSet<Vec<u8>>, bool)>,
}

fn io_name<T>(r: &std::io::Result<T>) -> String {
    match r {
        Ok(_) => "Ok".into(),
        Err(e) => format!("Err({:?}: {})", e.kind(), e),
    }
}

impl<K: Kt> Session<K> {
    pub fn create(dir: &Path, name: &str, cfg: &Cfg) -> Result<Session<K>, String> {
        let mut s = Session::attach(dir, name, Model::new(), 0);
        s.open(cfg)?;
        Ok(s)
    }

    /// a closed session on an existing directory, with the model it is expected to hold
    pub fn attach(dir: &Path, name: &str, model: Model, peak_live: usize) -> Session<K> {
        Session { dir: dir.to_path_buf(), name: name.to_string(), db: None, map: None, extra: vec![], model, n_buckets: 0, budget: STEP_BUDGET_BASE, updates_since_sync: 0, last_decoded: None, peak_live, live_iter: None }
    }

    /// open (or reopen) the database and the map; returns panic/err text on failure
    pub fn open(&mut self, cfg: &Cfg) -> Result<(), String> {
        let dir = self.dir.clone();
        let name = self.name.clone();
        let params = cfg.params();
        match guarded(STEP_BUDGET_BASE, || -> std::io::Result<(FileDb, FileDbMap<K>)> {
            let db = abyssiniandb::open_file(&dir)?;
            let map = K::open(&db, &name, params)?;
            Ok((db, map))
        }) {
            Guard::Ok(Ok((db, map))) => {
                self.db = Some(db);
                self.map = Some(map);
            }
            Guard::Ok(Err(e)) => return Err(format!("open returned Err({:?}: {e})", e.kind())),
            Guard::Hang(m) => return Err(format!("open hangs: {m}")),
            Guard::Panic(m) => return Err(format!("open panicked: {m}")),
        }
        // table size as stored (header), read from the file itself
        let htx = self.dir.join(format!("{}.htx", self.name));
        // (a freshly created table still has its header in the buffer: fall back to what the parameter promises)
        self.n_buckets = read_n_buckets(&htx).filter(|n| *n > 0).unwrap_or_else(|| cfg.buckets.expected_n());
        self.refresh_budget();
        Ok(())
    }

    pub fn refresh_budget(&mut self) {
        let flen = |ext: &str| std::fs::metadata(self.dir.join(format!("{}.{ext}", self.name))).map(|m| m.len()).unwrap_or(0);
        self.budget = STEP_BUDGET_BASE + 8 * self.n_buckets + 4 * (flen("key") + flen("val"));
    }

    pub fn close(&mut self) {
        self.live_iter = None;
        self.extra.clear();
        self.map = None;
        self.db = None;
    }

    pub fn image(&self) -> std::io::Result<Image> {
        Image::read(&self.dir, &self.name)
    }

    fn m(&mut self) -> &mut FileDbMap<K> {
        self.map.as_mut().expect("map is open")
    }

    // ------------------------------------------------------------ basic calls, each compared with the model

    fn basic<T: PartialEq + std::fmt::Debug>(&mut self, at: usize, what: &str, owners: &'static [&'static str], expect: T, f: impl FnOnce(&mut FileDbMap<K>) -> std::io::Result<T>) -> Result<(), Finding> {
        let budget = self.budget;
        let map = self.map.as_mut().expect("map is open");
        match guarded(budget, || f(map)) {
            Guard::Ok(Ok(v)) => {
                if v == expect {
                    Ok(())
                } else {
                    let a = format!("{v:?}");
                    let b = format!("{expect:?}");
                    Err(finding(owners, "result", at, format!("{what}: returned {} but the model says {}", trunc(&a), trunc(&b))))
                }
            }
            Guard::Ok(Err(e)) => Err(finding(owners, "result", at, format!("{what}: returned Err({:?}: {e}) on a healthy filesystem", e.kind()))),
            Guard::Hang(m) => Err(finding(owners, "hang", at, format!("{what}: {m}"))),
            Guard::Panic(m) => Err(finding(owners, "panic", at, format!("{what}: panicked: {m}"))),
        }
    }

    /// after a call on `key` ended in a way that leaves its effect undefined (panic, error, wrong return value): adopt
    /// the map's own answer for that one key, so that the rest of the map can still be judged. false: no answer.
    pub fn resync_key(&mut self, key: &[u8]) -> bool {
        let budget = self.budget;
        let Some(map) = self.map.as_mut() else { return false };
        match guarded(budget, || map.get(key)) {
            Guard::Ok(Ok(Some(v))) => {
                self.model.insert(key.to_vec(), v);
                true
            }
            Guard::Ok(Ok(None)) => {
                self.model.remove(key);
                true
            }
            _ => false,
        }
    }

    pub fn apply(&mut self, at: usize, op: &Op, keys: &[Vec<u8>], mon: &Mon, ctx: &mut Ctx, rng_bits: u64) -> Result<(), Finding> {
        ctx.count(&format!("call.{}", op.kind_name()), 1);
        if op.is_update() {
            // an iterator must not outlive a modification of its map: nothing is promised for it then (a stale
            // iterator may even follow a dangling offset past the end of a file, which extends that file)
            self.live_iter = None;
        }
        match op {
            Op::Put(k, vs) => {
                let key = &keys[*k];
                let v = vs.bytes();
                ctx.max("max_value_len", v.len() as u64);
                ctx.max("max_key_len", key.len() as u64);
                if self.model.contains_key(key) {
                    ctx.count("put.overwrite", 1)
                } else {
                    ctx.count("put.insert", 1)
                }
                // every fifth call goes through the object-safe variant of the API
                if rng_bits % 5 == 1 {
                    let kk = K::from(key.clone());
                    self.basic(at, &format!("put_kt({}, len {})", show_bytes(key), v.len()), O_C01, (), |m| m.put_kt(&kk, &v))?;
                } else {
                    self.basic(at, &format!("put({}, len {})", show_bytes(key), v.len()), O_C01, (), |m| m.put(&key[..], &v))?;
                }
                self.model.insert(key.clone(), v.clone());
                self.peak_live = self.peak_live.max(self.model.len());
                self.updates_since_sync += 1;
                if mon.get_after_put {
                    self.basic(at, &format!("get({}) right after put", show_bytes(key)), O_C01, Some(v), |m| m.get(&key[..]))?;
                    if rng_bits % 4 == 0 && !keys.is_empty() {
                        let other = &keys[(rng_bits / 4) as usize % keys.len()];
                        let e = self.model.get(other).cloned();
                        self.basic(at, &format!("get({}) of another key after put({})", show_bytes(other), show_bytes(key)), O_C01, e, |m| m.get(&other[..]))?;
                    }
                }
            }
            Op::Del(k) => {
                let key = &keys[*k];
                let e = self.model.get(key).cloned();
                ctx.count(if e.is_some() { "delete.present" } else { "delete.absent" }, 1);
                if rng_bits % 5 == 1 {
                    let kk = K::from(&key[..]);
                    self.basic(at, &format!("del_kt({})", show_bytes(key)), O_C01, e, |m| m.del_kt(&kk))?;
                } else {
                    self.basic(at, &format!("delete({})", show_bytes(key)), O_C01, e, |m| m.delete(&key[..]))?;
                }
                self.model.remove(key);
                self.updates_since_sync += 1;
            }
            Op::Get(k) => {
                let key = &keys[*k];
                let e = self.model.get(key).cloned();
                ctx.count(if e.is_some() { "get.present" } else { "get.absent" }, 1);
                if rng_bits % 5 == 1 {
                    let kk = K::from(&key[..]);
                    self.basic(at, &format!("get_kt({})", show_bytes(key)), O_C01, e, |m| m.get_kt(&kk))?;
                } else {
                    self.basic(at, &format!("get({})", show_bytes(key)), O_C01, e, |m| m.get(&key[..]))?;
                }
            }
            Op::Has(k) => {
                let key = &keys[*k];
                let e = self.model.contains_key(key);
                if rng_bits % 5 == 1 {
                    let kk = K::from(&key[..]);
                    self.basic(at, &format!("includes_key_kt({})", show_bytes(key)), O_C01, e, |m| m.includes_key_kt(&kk))?;
                } else {
                    self.basic(at, &format!("includes_key({})", show_bytes(key)), O_C01, e, |m| m.includes_key(&key[..]))?;
                }
            }
            Op::Len => {
                let e = self.model.len() as u64;
                self.basic(at, "len()", O_C01, e, |m| m.len())?;
            }
            Op::IsEmpty => {
                let e = self.model.is_empty();
                self.basic(at, "is_empty()", O_C01, e, |m| m.is_empty())?;
            }
            Op::PutStr(k, vs) => {
                let key = &keys[*k];
                let v = vs.bytes();
                let s = String::from_utf8_lossy(&v).to_string();
                self.basic(at, &format!("put_string({}, len {})", show_bytes(key), s.len()), O_C14, (), |m| m.put_string(&key[..], &s))?;
                self.model.insert(key.clone(), s.as_bytes().to_vec());
                self.peak_live = self.peak_live.max(self.model.len());
                self.updates_since_sync += 1;
                // element-wise counterpart: the byte variant must now read the UTF-8 bytes
                self.basic(at, &format!("get({}) after put_string", show_bytes(key)), O_C14, Some(s.as_bytes().to_vec()), |m| m.get(&key[..]))?;
            }
            Op::GetStr(k) => {
                let key = &keys[*k];
                let e = self.model.get(key).map(|v| String::from_utf8_lossy(v).to_string());
                if let Some(v) = self.model.get(key) {
                    if std::str::from_utf8(v).is_err() {
                        ctx.count("get_string.invalid_utf8", 1);
                    }
                }
                self.basic(at, &format!("get_string({})", show_bytes(key)), O_C14, e, |m| m.get_string(&key[..]))?;
            }
            Op::DelStr(k) => {
                let key = &keys[*k];
                let e = self.model.get(key).map(|v| String::from_utf8_lossy(v).to_string());
                self.basic(at, &format!("delete_string({})", show_bytes(key)), O_C14, e, |m| m.delete_string(&key[..]))?;
                self.model.remove(key);
                self.updates_since_sync += 1;
            }
            Op::BulkGet(ks) => {
                let refs: Vec<&[u8]> = ks.iter().map(|k| &keys[*k][..]).collect();
                let e: Vec<Option<Vec<u8>>> = ks.iter().map(|k| self.model.get(&keys[*k]).cloned()).collect();
                self.note_batch(ctx, "bulk_get", ks, keys);
                self.basic(at, &format!("bulk_get({} keys)", ks.len()), O_C14, e, |m| m.bulk_get(&refs))?;
            }
            Op::BulkGetStr(ks) => {
                let refs: Vec<&[u8]> = ks.iter().map(|k| &keys[*k][..]).collect();
                let e: Vec<Option<String>> = ks.iter().map(|k| self.model.get(&keys[*k]).map(|v| String::from_utf8_lossy(v).to_string())).collect();
                self.note_batch(ctx, "bulk_get_string", ks, keys);
                self.basic(at, &format!("bulk_get_string({} keys)", ks.len()), O_C14, e, |m| m.bulk_get_string(&refs))?;
            }
            Op::BulkPut(kv) => {
                let vals: Vec<Vec<u8>> = kv.iter().map(|(_, v)| v.bytes()).collect();
                let pairs: Vec<(&[u8], &[u8])> = kv.iter().zip(vals.iter()).map(|((k, _), v)| (&keys[*k][..], &v[..])).collect();
                let ks: Vec<usize> = kv.iter().map(|x| x.0).collect();
                self.note_batch(ctx, "bulk_put", &ks, keys);
                self.basic(at, &format!("bulk_put({} pairs)", kv.len()), O_C14, (), |m| m.bulk_put(&pairs))?;
                for ((k, _), v) in kv.iter().zip(vals.into_iter()) {
                    self.model.insert(keys[*k].clone(), v);
                }
                self.peak_live = self.peak_live.max(self.model.len());
                self.updates_since_sync += 1;
                self.verify_keys(at, &ks, keys, O_C14, "after bulk_put")?;
            }
            Op::BulkPutStr(kv) => {
                let vals: Vec<String> = kv.iter().map(|(_, v)| String::from_utf8_lossy(&v.bytes()).to_string()).collect();
                let pairs: Vec<(&[u8], String)> = kv.iter().zip(vals.iter()).map(|((k, _), v)| (&keys[*k][..], v.clone())).collect();
                let ks: Vec<usize> = kv.iter().map(|x| x.0).collect();
                self.note_batch(ctx, "bulk_put_string", &ks, keys);
                self.basic(at, &format!("bulk_put_string({} pairs)", kv.len()), O_C14, (), |m| m.bulk_put_string(&pairs))?;
                for ((k, _), v) in kv.iter().zip(vals.into_iter()) {
                    self.model.insert(keys[*k].clone(), v.into_bytes());
                }
                self.peak_live = self.peak_live.max(self.model.len());
                self.updates_since_sync += 1;
                self.verify_keys(at, &ks, keys, O_C14, "after bulk_put_string")?;
            }
            Op::BulkDel(ks) => {
                let refs: Vec<&[u8]> = ks.iter().map(|k| &keys[*k][..]).collect();
                let e: Vec<Option<Vec<u8>>> = ks.iter().map(|k| self.model.get(&keys[*k]).cloned()).collect();
                self.note_batch(ctx, "bulk_delete", ks, keys);
                self.basic(at, &format!("bulk_delete({} keys)", ks.len()), O_C14, e, |m| m.bulk_delete(&refs))?;
                for k in ks {
                    self.model.remove(&keys[*k]);
                }
                self.updates_since_sync += 1;
                self.verify_keys(at, ks, keys, O_C14, "after bulk_delete")?;
            }
            Op::BulkDelStr(ks) => {
                let refs: Vec<&[u8]> = ks.iter().map(|k| &keys[*k][..]).collect();
                let e: Vec<Option<String>> = ks.iter().map(|k| self.model.get(&keys[*k]).map(|v| String::from_utf8_lossy(v).to_string())).collect();
                self.note_batch(ctx, "bulk_delete_string", ks, keys);
                self.basic(at, &format!("bulk_delete_string({} keys)", ks.len()), O_C14, e, |m| m.bulk_delete_string(&refs))?;
                for k in ks {
                    self.model.remove(&keys[*k]);
                }
                self.updates_since_sync += 1;
                self.verify_keys(at, ks, keys, O_C14, "after bulk_delete_string")?;
            }
            Op::PutIter(kv) => {
                let items: Vec<(K, Vec<u8>)> = kv.iter().map(|(k, v)| (K::from(keys[*k].clone()), v.bytes())).collect();
                let ks: Vec<usize> = kv.iter().map(|x| x.0).collect();
                self.note_batch(ctx, "put_from_iter", &ks, keys);
                // the iterator handed over is of exact size, or one whose size hint has a lower bound of zero
                // (filter), or one that under-reports (flat_map of singletons)
                match rng_bits % 3 {
                    0 => self.basic(at, &format!("put_from_iter({} pairs, exact-size iterator)", kv.len()), O_C14, (), |m| m.put_from_iter(items.into_iter()))?,
                    1 => self.basic(at, &format!("put_from_iter({} pairs, filter iterator)", kv.len()), O_C14, (), |m| m.put_from_iter(items.into_iter().filter(|x| x.1.len() != usize::MAX)))?,
                    _ => self.basic(at, &format!("put_from_iter({} pairs, flat_map iterator)", kv.len()), O_C14, (), |m| m.put_from_iter(items.into_iter().flat_map(|x| std::iter::once(x))))?,
                }
                for (k, v) in kv.iter() {
                    self.model.insert(keys[*k].clone(), v.bytes());
                }
                self.peak_live = self.peak_live.max(self.model.len());
                self.updates_since_sync += 1;
                self.verify_keys(at, &ks, keys, O_C14, "after put_from_iter")?;
                let e = self.model.len() as u64;
                self.basic(at, "len() after put_from_iter", O_C14, e, |m| m.len())?;
            }
            Op::Flush => self.basic(at, "flush()", O_C01, (), |m| m.flush())?,
            Op::SyncAll => self.basic(at, "sync_all()", O_C01, (), |m| m.sync_all())?,
            Op::SyncData => self.basic(at, "sync_data()", O_C01, (), |m| m.sync_data())?,
            Op::DbSyncAll | Op::DbSyncData => {
                let db = self.db.clone().expect("db open");
                let all = matches!(op, Op::DbSyncAll);
                match guarded(self.budget, || if all { db.sync_all() } else { db.sync_data() }) {
                    Guard::Ok(Ok(())) => {}
                    Guard::Ok(r) => return Err(finding(O_C01, "result", at, format!("{}: {}", op.kind_name(), io_name(&r)))),
                    Guard::Hang(m) => return Err(finding(O_C01, "hang", at, format!("{}: {m}", op.kind_name()))),
                    Guard::Panic(m) => return Err(finding(O_C01, "panic", at, format!("{}: panicked: {m}", op.kind_name()))),
                }
            }
            Op::ReadFill => self.basic(at, "read_fill_buffer()", O_C01, (), |m| m.read_fill_buffer())?,
            Op::Reopen(cfg) => {
                self.close();
                if mon.decode_at_close {
                    self.decode_checkpoint(at, mon, ctx, "close")?;
                }
                ctx.count("reopen.in_process", 1);
                if let Err(e) = self.open(cfg) {
                    return Err(finding(O_C02, "reopen", at, format!("reopening with {} failed: {e}", cfg.text())));
                }
                self.updates_since_sync = 0;
                if mon.full_compare_at_reopen {
                    self.full_compare(at, keys, O_C02, "after reopen", ctx)?;
                }
            }
            Op::Hole(cfg, key_len, val_len) => {
                self.close();
                for (ext, len) in [("key", *key_len), ("val", *val_len)] {
                    if *(&len) == 0 {
                        continue;
                    }
                    let p = self.dir.join(format!("{}.{ext}", self.name));
                    let cur = std::fs::metadata(&p).map(|m| m.len()).unwrap_or(0);
                    if len > cur {
                        let ok = std::fs::OpenOptions::new().write(true).open(&p).and_then(|f| f.set_len(len)).is_ok();
                        if !ok {
                            return Err(finding(&[], "harness", at, format!("cannot extend {} to {len} bytes", p.display())));
                        }
                        ctx.count("holes_made", 1);
                        ctx.max("max_hole_end", len);
                    }
                }
                if let Err(e) = self.open(cfg) {
                    return Err(finding(O_C02, "reopen", at, format!("reopening after the files were extended failed: {e}")));
                }
                self.updates_since_sync = 0;
                if mon.full_compare_at_reopen {
                    self.full_compare(at, keys, O_C02, "after reopen (files extended)", ctx)?;
                }
            }
            Op::Iter(f, n) => {
                // every second traversal op is interleaved with other read-only calls between its steps
                let r = self.iterate(at, *f, *n, at % 2 == 1, ctx);
                ctx.observe(r)?;
            }
            Op::IterStep(n) => {
                let r = self.iter_step(at, *n, ctx);
                ctx.observe(r)?;
            }
            Op::PutIterSelf => {
                // put_from_iter fed by an iterator over (a clone of) the same map; every value is replaced by one of
                // the same length, so no record moves and the traversal stays well defined
                let src = self.map.as_ref().expect("open").clone();
                self.basic(at, "put_from_iter(iterator over the same map)", O_C14, (), |m| m.put_from_iter(src.iter().map(|(k, v)| (k, v.iter().rev().copied().collect::<Vec<u8>>()))))?;
                for v in self.model.values_mut() {
                    v.reverse();
                }
                self.updates_since_sync += 1;
                let ks: Vec<usize> = (0..keys.len().min(24)).collect();
                self.verify_keys(at, &ks, keys, O_C14, "after put_from_iter over the same map")?;
            }
            Op::Stats => {
                // executed for its side effects / termination; figures are compared at sync points
                let r = self.stats_calls(at, None, ctx);
                ctx.observe(r)?;
            }
        }
        if op.is_sync() {
            self.updates_since_sync = 0;
            self.refresh_budget();
            if mon.decode_at_sync {
                self.decode_checkpoint(at, mon, ctx, "sync")?;
            }
            if mon.iterate_at_sync {
                for f in 0..ITER_FLAVOURS.len() {
                    // every second checkpoint: other read-only calls and a second iterator between the steps
                    let r = self.iterate(at, f, usize::MAX, (at + f) % 2 == 0, ctx);
                    ctx.observe(r)?;
                }
            }
        }
        Ok(())
    }

    fn note_batch(&self, ctx: &mut Ctx, what: &str, ks: &[usize], keys: &[Vec<u8>]) {
        ctx.count(&format!("batch.{what}"), 1);
        ctx.max("batch.max_size", ks.len() as u64);
        if ks.is_empty() {
            ctx.count("batch.empty", 1);
        }
        let sorted = ks.windows(2).all(|w| keys[w[0]] <= keys[w[1]]);
        if !sorted {
            ctx.count("batch.unsorted", 1);
        }
        let mut s = std::collections::HashSet::new();
        if ks.iter().any(|k| !s.insert(*k)) {
            ctx.count("batch.with_repeats", 1);
        }
        if ks.iter().any(|k| !self.model.contains_key(&keys[*k])) {
            ctx.count("batch.with_absent_keys", 1);
        }
    }

    fn verify_keys(&mut self, at: usize, ks: &[usize], keys: &[Vec<u8>], owners: &'static [&'static str], when: &str) -> Result<(), Finding> {
        for k in ks.iter().take(64) {
            let key = &keys[*k];
            let e = self.model.get(key).cloned();
            self.basic(at, &format!("get({}) {when}", show_bytes(key)), owners, e, |m| m.get(&key[..]))?;
        }
        let e = self.model.len() as u64;
        self.basic(at, &format!("len() {when}"), owners, e, |m| m.len())
    }

    /// compare len, every pool key and a full iteration with the model
    pub fn full_compare(&mut self, at: usize, keys: &[Vec<u8>], owners: &'static [&'static str], when: &str, ctx: &mut Ctx) -> Result<(), Finding> {
        let e = self.model.len() as u64;
        self.basic(at, &format!("len() {when}"), owners, e, |m| m.len())?;
        for key in keys.iter() {
            let e = self.model.get(key).cloned();
            self.basic(at, &format!("get({}) {when}", show_bytes(key)), owners, e, |m| m.get(&key[..]))?;
        }
        ctx.count("full_compare.keys", keys.len() as u64);
        let model = self.model.clone();
        let budget = self.budget;
        let map = self.map.as_ref().expect("open").clone();
        match guarded(budget, || -> Result<(), String> {
            let mut got: Model = Model::new();
            let mut n = 0usize;
            for (k, v) in map.iter() {
                n += 1;
                if got.insert(k.as_bytes().to_vec(), v).is_some() {
                    return Err(format!("iteration {when} yields key {} twice", show_bytes(k.as_bytes())));
                }
                if n > model.len() + 8 {
                    break;
                }
            }
            if got != model {
                return Err(format!("iteration {when} yields {} entries that differ from the model's {} ({})", got.len(), model.len(), first_diff(&got, &model)));
            }
            Ok(())
        }) {
            Guard::Ok(Ok(())) => Ok(()),
            Guard::Ok(Err(m)) => Err(finding(owners, "full_compare", at, m)),
            Guard::Hang(m) => Err(finding(owners, "hang", at, format!("iteration {when}: {m}"))),
            Guard::Panic(m) => Err(finding(owners, "panic", at, format!("iteration {when}: panicked: {m}"))),
        }
    }

    // ------------------------------------------------------------ C04: iteration monitor

    pub fn iterate(&mut self, at: usize, flavour: usize, abandon_after: usize, interleave: bool, ctx: &mut Ctx) -> Result<(), Finding> {
        let model = &self.model;
        let budget = self.budget;
        let map = self.map.as_ref().expect("open");
        let name = ITER_FLAVOURS[flavour];
        let len_now = model.len();
        let r = guarded(budget, || -> Result<u64, String> {
            // collect (key, value) options according to flavour
            enum It<K: Kt> {
                A(abyssiniandb::DbXxxIter<K>),
                B(abyssiniandb::DbXxxIterMut<K>),
                C(abyssiniandb::DbXxxKeys<K>),
                D(abyssiniandb::DbXxxValues<K>),
                E(abyssiniandb::filedb::DbXxxIntoIter<K>),
            }
            let mut mclone = map.clone();
            let mut it: It<K> = match flavour {
                0 => It::A(map.iter()),
                1 => It::B(mclone.iter_mut()),
                2 => It::C(map.keys()),
                3 => It::D(map.values()),
                4 => It::E(map.clone().into_iter()),
                5 => It::A((&*map).into_iter()),
                _ => It::B((&mut mclone).into_iter()),
            };
            let mut seen_keys: HashMap<Vec<u8>, ()> = HashMap::new();
            let mut vals: Vec<Vec<u8>> = Vec::new();
            let mut i = 0usize;
            // the map is not modified during the traversal, but it may be *read*: between two steps the
            // monitor issues len/get/includes_key through another handle and advances a second iterator
            let mut other = map.clone();
            let mut second = if interleave { Some(map.iter()) } else { None };
            let probe: Vec<&Vec<u8>> = model.keys().take(3).collect();
            loop {
                if interleave {
                    match i % 4 {
                        0 => {
                            if other.len().map_err(|e| e.to_string())? != len_now as u64 {
                                return Err(format!("{name}: len() called between two steps differs from the model"));
                            }
                        }
                        1 => {
                            if let Some(k) = probe.get(i % 3) {
                                if other.get(&k[..]).map_err(|e| e.to_string())?.as_ref() != model.get(*k) {
                                    return Err(format!("{name}: get() called between two steps returns a wrong value"));
                                }
                            }
                        }
                        2 => {
                            if i % 8 == 2 {
                                other.read_fill_buffer().map_err(|e| e.to_string())?;
                            } else {
                                let _ = other.includes_key(&b"certainly absent key \xff\x00"[..]).map_err(|e| e.to_string())?;
                            }
                        }
                        _ => {
                            if let Some(it2) = second.as_mut() {
                                if let Some((k2, v2)) = it2.next() {
                                    if model.get(k2.as_bytes()) != Some(&v2) {
                                        return Err(format!("{name}: a second iterator advanced alternately yields a pair that is not live"));
                                    }
                                }
                            }
                        }
                    }
                }
                let hint = match &it {
                    It::A(x) => x.size_hint(),
                    It::B(x) => x.size_hint(),
                    It::C(x) => x.size_hint(),
                    It::D(x) => x.size_hint(),
                    It::E(x) => x.size_hint(),
                };
                let want = len_now.saturating_sub(i);
                if i <= len_now && hint != (want, Some(want)) {
                    return Err(format!("{name}: size_hint before step {i} is {hint:?}, expected ({want}, Some({want})) (len {len_now})"));
                }
                if i >= abandon_after {
                    return Ok(i as u64);
                }
                let item: Option<(Option<Vec<u8>>, Option<Vec<u8>>)> = match &mut it {
                    It::A(x) => x.next().map(|(k, v)| (Some(k.as_bytes().to_vec()), Some(v))),
                    It::B(x) => x.next().map(|(k, v)| (Some(k.as_bytes().to_vec()), Some(v))),
                    It::C(x) => x.next().map(|k| (Some(k.as_bytes().to_vec()), None)),
                    It::D(x) => x.next().map(|v| (None, Some(v))),
                    It::E(x) => x.next().map(|(k, v)| (Some(k.as_bytes().to_vec()), Some(v))),
                };
                let Some((k, v)) = item else { break };
                i += 1;
                if i > len_now + 4 {
                    return Err(format!("{name}: yielded more than len()={len_now} items"));
                }
                if let Some(k) = &k {
                    if seen_keys.insert(k.clone(), ()).is_some() {
                        return Err(format!("{name}: key {} yielded twice (item {i} of {len_now})", show_bytes(k)));
                    }
                    match model.get(k) {
                        None => return Err(format!("{name}: yielded key {} which is not live", show_bytes(k))),
                        Some(mv) => {
                            if let Some(v) = &v {
                                if v != mv {
                                    return Err(format!("{name}: key {} paired with value {} but its current value is {}", show_bytes(k), show_bytes(v), show_bytes(mv)));
                                }
                            }
                        }
                    }
                } else if let Some(v) = v {
                    vals.push(v);
                }
            }
            if i != len_now {
                return Err(format!("{name}: yielded {i} items but len() is {len_now}"));
            }
            if flavour == 3 {
                let mut a = vals;
                a.sort();
                let mut b: Vec<Vec<u8>> = model.values().cloned().collect();
                b.sort();
                if a != b {
                    return Err(format!("{name}: multiset of values differs from the live values"));
                }
            }
            // fused: keeps returning None
            for _ in 0..3 {
                let more = match &mut it {
                    It::A(x) => x.next().is_some(),
                    It::B(x) => x.next().is_some(),
                    It::C(x) => x.next().is_some(),
                    It::D(x) => x.next().is_some(),
                    It::E(x) => x.next().is_some(),
                };
                if more {
                    return Err(format!("{name}: returned an item after the end"));
                }
            }
            Ok(i as u64)
        });
        match r {
            Guard::Ok(Ok(n)) => {
                ctx.count(&format!("traversal.{name}"), 1);
                ctx.count("traversal.items", n);
                if interleave {
                    ctx.count("traversal.interleaved_with_reads", 1);
                }
                if abandon_after != usize::MAX {
                    ctx.count("traversal.abandoned", 1);
                }
                Ok(())
            }
            Guard::Ok(Err(m)) => Err(finding(O_C04, "iteration", at, format!("{m} [table {} buckets]", self.n_buckets))),
            Guard::Hang(m) => Err(finding(O_C04, "hang", at, format!("{name} traversal: {m} [table {} buckets]", self.n_buckets))),
            Guard::Panic(m) => Err(finding(O_C04, "panic", at, format!("{name} traversal panicked: {m} [table {} buckets]", self.n_buckets))),
        }
    }

    /// advance the iterator that is kept alive across calls by `n` steps (created on demand). While the map has
    /// not been modified since its creation the yielded items are compared with the model.
    pub fn iter_step(&mut self, at: usize, n: usize, ctx: &mut Ctx) -> Result<(), Finding> {
        if self.live_iter.is_none() {
            let map = self.map.as_ref().expect("open");
            match guarded(self.budget, || map.iter()) {
                Guard::Ok(it) => self.live_iter = Some((it, Default::default(), true)),
                Guard::Hang(m) | Guard::Panic(m) => return Err(finding(O_C04, "panic", at, format!("iter(): {m}"))),
            }
            ctx.count("live_iterators_created", 1);
        }
        let budget = self.budget;
        let model = &self.model;
        let li = self.live_iter.as_mut().unwrap();
        let valid = li.2;
        let r = guarded(budget, || -> Result<bool, String> {
            for _ in 0..n {
                match li.0.next() {
                    None => {
                        if valid && li.1.len() != model.len() {
                            return Err(format!("an iterator advanced in several calls (other read-only calls in between) ended after {} of {} items", li.1.len(), model.len()));
                        }
                        return Ok(true);
                    }
                    Some((k, v)) => {
                        if valid {
                            let kb = k.as_bytes().to_vec();
                            if model.get(&kb) != Some(&v) {
                                return Err(format!("an iterator advanced in several calls yields key {} with a value that is not live", show_bytes(&kb)));
                            }
                            if !li.1.insert(kb) {
                                return Err("an iterator advanced in several calls yields a key twice".to_string());
                            }
                        }
                    }
                }
            }
            Ok(false)
        });
        ctx.count("live_iterator_steps", n as u64);
        match r {
            Guard::Ok(Ok(done)) => {
                if done {
                    self.live_iter = None;
                }
                Ok(())
            }
            Guard::Ok(Err(m)) => {
                self.live_iter = None;
                Err(finding(O_C04, "iteration", at, m))
            }
            Guard::Hang(m) | Guard::Panic(m) => {
                self.live_iter = None;
                if valid {
                    Err(finding(O_C04, "panic", at, format!("a step of an iterator kept across read-only calls: {m}")))
                } else {
                    // the map was modified under the iterator: nothing is promised for it
                    ctx.count("live_iterator_dropped_after_modification", 1);
                    Ok(())
                }
            }
        }
    }

    // ------------------------------------------------------------ C05/C06/C17: decode checkpoint

    /// decode the files as they are on disk now and run the structure / storage / statistics monitors
    pub fn decode_checkpoint(&mut self, at: usize, mon: &Mon, ctx: &mut Ctx, when: &'static str) -> Result<(), Finding> {
        let img = match self.image() {
            Ok(i) => i,
            Err(e) => return Err(finding(O_C05, "decode", at, format!("cannot read the files at {when}: {e}"))),
        };
        let dec = decoder::decode(&img, Some(K::SIG));
        ctx.count("images_decoded", 1);
        ctx.count("invariant_evaluations", dec.checks);
        ctx.count("entries_walked", dec.entries.len() as u64);
        ctx.count("slots_walked", (dec.keyf.slots.len() + dec.valf.slots.len()) as u64);
        ctx.max("max_chain", dec.max_chain as u64);
        ctx.max("max_file_bytes", img.total_len());
        ctx.count("stale_bitmap_bits_seen", dec.stale_bitmap_bits);
        ctx.count("nonzero_padding_seen", dec.keyf.nonzero_padding + dec.valf.nonzero_padding);
        let dg = img.digest();
        ctx.digests.insert(dg);
        let free_total: usize = dec.keyf.free.iter().chain(dec.valf.free.iter()).map(|l| l.len()).sum();
        if !dec.entries.is_empty() && (free_total > 0 || dec.max_chain > 1) {
            ctx.nontrivial.insert(dg);
        }
        if let Some(p) = dec.structure_problems().first() {
            ctx.observe(Err(finding(O_C05, "structure", at, format!("at {when}: {:?}: {}", p.group, p.what))))?;
        }
        if let Some(p) = dec.storage_problems().first() {
            ctx.observe(Err(finding(O_C06, "storage", at, format!("at {when}: {:?}: {}", p.group, p.what))))?;
        }
        if let Some(m) = decoder::contents_mismatch(&img, &dec, &self.model) {
            ctx.observe(Err(finding(O_C05, "contents", at, format!("at {when}: {m}"))))?;
        }
        // weak C06 bound, valid for every run: slots of one exact size never exceed peak live entries + 1
        // (a slot of some size is only created when every existing slot of that size is in use)
        for (nm, fs) in [("key", &dec.keyf), ("val", &dec.valf)] {
            let mut per: HashMap<u32, u64> = HashMap::new();
            for s in fs.slots.iter() {
                *per.entry(s.size).or_insert(0) += 1;
            }
            for (sz, c) in per {
                if c > self.peak_live as u64 + 1 {
                    ctx.observe(Err(finding(O_C06, "bound", at, format!("at {when}: {nm} file holds {c} slots of {sz} bytes but at most {} entries were ever live at once", self.peak_live))))?;
                    break;
                }
            }
        }
        if mon.stats_at_sync && self.map.is_some() {
            let r = self.stats_calls(at, Some((&img, &dec)), ctx);
            ctx.observe(r)?;
        }
        self.last_decoded = Some((img, dec));
        Ok(())
    }

    // ------------------------------------------------------------ C17: statistics monitor

    pub fn stats_calls(&mut self, at: usize, truth: Option<(&Image, &Decoded)>, ctx: &mut Ctx) -> Result<(), Finding> {
        let budget = self.budget;
        let map = self.map.as_ref().expect("open");
        type Pairs = Vec<(u64, u64)>;
        struct Figures {
            free_key: Pairs,
            free_val: Pairs,
            key_sizes: Pairs,
            val_sizes: Pairs,
            key_lens: Pairs,
            val_lens: Pairs,
            filling: (u64, u32),
            keys_count: String,
        }
        let r = guarded(budget.saturating_mul(2), || -> std::io::Result<Figures> {
            Ok(Figures {
                free_key: map.count_of_free_key_piece()?.into_iter().map(|(a, b)| (a as u64, b)).collect(),
                free_val: map.count_of_free_value_piece()?.into_iter().map(|(a, b)| (a as u64, b)).collect(),
                key_sizes: parse_pairs(&map.key_piece_size_stats()?.to_string()),
                val_sizes: parse_pairs(&map.value_piece_size_stats()?.to_string()),
                key_lens: parse_pairs(&map.key_length_stats()?.to_string()),
                val_lens: parse_pairs(&map.value_length_stats()?.to_string()),
                filling: map.htx_filling_rate_per_mill()?,
                keys_count: map.keys_count_stats()?.to_string(),
            })
        });
        let fig = match r {
            Guard::Ok(Ok(f)) => f,
            Guard::Ok(Err(e)) => return Err(finding(O_C17, "stats", at, format!("a statistics call returned Err({:?}: {e})", e.kind()))),
            Guard::Hang(m) => return Err(finding(O_C06_C17, "hang", at, format!("a statistics call does not terminate: {m}"))),
            Guard::Panic(m) => return Err(finding(O_C17, "panic", at, format!("a statistics call panicked: {m}"))),
        };
        ctx.count("stats.call_sets", 1);
        let _ = fig.keys_count;
        let Some((img, dec)) = truth else { return Ok(()) };
        let _ = img;
        // free counts per class
        for (nm, got, fs) in [("key", &fig.free_key, &dec.keyf), ("value", &fig.free_val, &dec.valf)] {
            let want: Pairs = CLASSES.iter().enumerate().map(|(i, &c)| (c as u64, fs.free[i].len() as u64)).collect();
            if *got != want {
                return Err(finding(O_C17, "stats", at, format!("count_of_free_{nm}_piece() = {got:?} but the free lists on disk hold {want:?}")));
            }
            ctx.count("stats.free_slots_counted", want.iter().map(|x| x.1).sum());
        }
        // histograms over live entries with non-empty key / value
        let hist = |it: &mut dyn Iterator<Item = u64>| -> Pairs {
            let mut m: BTreeMap<u64, u64> = BTreeMap::new();
            for x in it {
                *m.entry(x).or_insert(0) += 1;
            }
            m.into_iter().collect()
        };
        let want_key_sizes = hist(&mut dec.entries.iter().filter(|e| !e.key.is_empty()).map(|e| e.key_size as u64));
        let want_val_sizes = hist(&mut dec.entries.iter().filter(|e| e.val_len > 0).map(|e| e.val_size as u64));
        let want_key_lens = hist(&mut self.model.keys().filter(|k| !k.is_empty()).map(|k| k.len() as u64));
        let want_val_lens = hist(&mut self.model.values().filter(|v| !v.is_empty()).map(|v| v.len() as u64));
        for (nm, got, want) in [
            ("key_piece_size_stats", &fig.key_sizes, &want_key_sizes),
            ("value_piece_size_stats", &fig.val_sizes, &want_val_sizes),
            ("key_length_stats", &fig.key_lens, &want_key_lens),
            ("value_length_stats", &fig.val_lens, &want_val_lens),
        ] {
            if got != want {
                return Err(finding(O_C17, "stats", at, format!("{nm}() = {} but the files/model give {}", trunc(&format!("{got:?}")), trunc(&format!("{want:?}")))));
            }
        }
        let want_fill = (dec.nonempty_buckets, (dec.nonempty_buckets * 1000 / dec.n.max(1)) as u32);
        if fig.filling != want_fill {
            return Err(finding(O_C17, "stats", at, format!("htx_filling_rate_per_mill() = {:?} but {} of {} buckets are non-empty, i.e. {:?}", fig.filling, dec.nonempty_buckets, dec.n, want_fill)));
        }
        ctx.count("stats.compared_sets", 1);
        ctx.count("stats.figures_compared", 7);
        Ok(())
    }
}

pub fn read_n_buckets(htx: &Path) -> Option<u64> {
    use std::io::Read;
    let mut f = std::fs::File::open(htx).ok()?;
    let mut b = [0u8; 24];
    f.read_exact(&mut b).ok()?;
    let mut a = [0u8; 8];
    a.copy_from_slice(&b[16..24]);
    Some(u64::from_le_bytes(a))
}

pub fn trunc(s: &str) -> String {
    if s.len() <= 300 {
        s.to_string()
    } else {
        let mut e = 300;
        while !s.is_char_boundary(e) {
            e -= 1;
        }
        format!("{}…(+{} chars)", &s[..e], s.len() - e)
    }
}

fn first_diff(got: &Model, model: &Model) -> String {
    for (k, v) in model {
        match got.get(k) {
            None => return format!("missing key {}", show_bytes(k)),
            Some(g) if g != v => return format!("key {} has value {} instead of {}", show_bytes(k), show_bytes(g), show_bytes(v)),
            _ => {}
        }
    }
    for k in got.keys() {
        if !model.contains_key(k) {
            return format!("extra key {}", show_bytes(k));
        }
    }
    "no difference".into()
}

/// parse the Display form `[(a, b), (c, d)]` of the statistics structs
pub fn parse_pairs(s: &str) -> Vec<(u64, u64)> {
    let mut out = Vec::new();
    let mut nums: Vec<u64> = Vec::new();
    let mut cur = String::new();
    for ch in s.chars() {
        if ch.is_ascii_digit() {
            cur.push(ch);
        } else if !cur.is_empty() {
            nums.push(cur.parse().unwrap_or(u64::MAX));
            cur.clear();
        }
    }
    if !cur.is_empty() {
        nums.push(cur.parse().unwrap_or(u64::MAX));
    }
    for c in nums.chunks(2) {
        if c.len() == 2 {
            out.push((c[0], c[1]));
        }
    }
    out
}

// ---------------------------------------------------------------- running a whole history

pub struct RunResult {
    pub stop: Option<Stop>,
    pub calls: usize,
}

/// run a history in `dir` (must be empty / non-existing); the session is closed at the end
pub fn run_history<K: Kt>(dir: &Path, h: &History, mon: &Mon, ctx: &mut Ctx) -> RunResult {
    let _ = std::fs::remove_dir_all(dir);
    let mut s = match Session::<K>::create(dir, "m", &h.cfg) {
        Ok(s) => s,
        Err(e) => {
            let f = finding(O_C07, "create", 0, format!("creating a map with {} failed: {e}", h.cfg.text()));
            return RunResult { stop: Some(ctx.classify(f)), calls: 0 };
        }
    };
    let mut r = run_ops(&mut s, h, 0, mon, ctx);
    // a history that ends early on a finding owned by another property (a wrong or failing call) has still produced
    // files: when the running check watches the files (decoder monitors), they are judged at the point reached. The
    // one key whose state the failed call left undefined is first re-read from the map itself.
    if let (Some(Stop::Foreign(f)), true) = (&r.stop, mon.decode_at_sync || mon.decode_at_close) {
        let at = f.at;
        let touched: Vec<usize> = match h.ops.get(at) {
            Some(Op::Put(k, _)) | Some(Op::Del(k)) | Some(Op::Get(k)) | Some(Op::Has(k)) => vec![*k],
            _ => vec![],
        };
        if !touched.is_empty() && s.map.is_some() && touched.iter().all(|&k| s.resync_key(&h.keys[k])) {
            ctx.count("judged_after_foreign_end", 1);
            s.close();
            if let Err(f2) = s.decode_checkpoint(at, mon, ctx, "close") {
                r.stop = Some(ctx.classify(f2));
            }
        }
    }
    s.close();
    ctx.drain_notes();
    r
}

pub fn run_ops<K: Kt>(s: &mut Session<K>, h: &History, start: usize, mon: &Mon, ctx: &mut Ctx) -> RunResult {
    let mut bits = crate::util::Rng::new(h.ops.len() as u64 ^ 0x5EED);
    let mut calls = 0usize;
    for (i, op) in h.ops.iter().enumerate().skip(start) {
        calls += 1;
        if let Err(f) = s.apply(i, op, &h.keys, mon, ctx, bits.next()) {
            return RunResult { stop: Some(ctx.classify(f)), calls };
        }
    }
    let end = h.ops.len();
    if mon.final_sweep {
        let keys = h.keys.clone();
        for key in keys.iter() {
            let e = s.model.get(key).cloned();
            if let Err(f) = s.basic(end, &format!("final get({})", show_bytes(key)), O_C01, e, |m| m.get(&key[..])) {
                return RunResult { stop: Some(ctx.classify(f)), calls };
            }
        }
        let e = s.model.len() as u64;
        if let Err(f) = s.basic(end, "final len()", O_C01, e, |m| m.len()) {
            return RunResult { stop: Some(ctx.classify(f)), calls };
        }
    }
    if mon.decode_at_close {
        s.close();
        if let Err(f) = s.decode_checkpoint(end, mon, ctx, "close") {
            return RunResult { stop: Some(ctx.classify(f)), calls };
        }
    }
    RunResult { stop: None, calls }
}

#[allow(dead_code)]
pub fn used_slot_count(d: &Decoded) -> (usize, usize) {
    (
        d.keyf.slots.iter().filter(|s| s.kind == SlotKind::Used).count(),
        d.valf.slots.iter().filter(|s| s.kind == SlotKind::Used).count(),
    )
}
