//! the few libc calls the fault injectors need (libc is linked by std; no crate needed). Linux x86-64.
#![allow(dead_code)]

#[repr(C)]
pub struct Rlimit {
    pub cur: u64,
    pub max: u64,
}

extern "C" {
    fn setrlimit(resource: i32, rlim: *const Rlimit) -> i32;
    fn getrlimit(resource: i32, rlim: *mut Rlimit) -> i32;
    fn signal(sig: i32, handler: usize) -> usize;
    fn kill(pid: i32, sig: i32) -> i32;
    fn getpid() -> i32;
    fn alarm(seconds: u32) -> u32;
    fn prctl(option: i32, arg2: u64, arg3: u64, arg4: u64, arg5: u64) -> i32;
}

/// child processes of a shard must not outlive it: die with the parent, and in any case after `seconds`
pub fn child_lifetime(seconds: u32) {
    const PR_SET_PDEATHSIG: i32 = 1;
    unsafe {
        prctl(PR_SET_PDEATHSIG, SIGKILL as u64, 0, 0, 0);
        alarm(seconds);
    }
}

const RLIMIT_FSIZE: i32 = 1;
const SIGXFSZ: i32 = 25;
const SIGKILL: i32 = 9;
const SIG_IGN: usize = 1;
pub const RLIM_INFINITY: u64 = u64::MAX;

const RLIMIT_NOFILE: i32 = 7;

pub fn get_nofile_limit() -> (u64, u64) {
    let mut r = Rlimit { cur: 0, max: 0 };
    unsafe {
        getrlimit(RLIMIT_NOFILE, &mut r);
    }
    (r.cur, r.max)
}

/// set the soft limit of open file descriptors; hard limit untouched
pub fn set_nofile_soft(limit: u64) -> bool {
    let (_c, m) = get_nofile_limit();
    let r = Rlimit { cur: limit.min(m), max: m };
    unsafe { setrlimit(RLIMIT_NOFILE, &r) == 0 }
}

/// number of file descriptors this process has open (highest descriptor number + 1 is what the limit is compared with)
pub fn highest_fd() -> u64 {
    let mut hi = 2u64;
    if let Ok(rd) = std::fs::read_dir("/proc/self/fd") {
        for e in rd.flatten() {
            if let Ok(n) = e.file_name().to_string_lossy().parse::<u64>() {
                hi = hi.max(n);
            }
        }
    }
    hi
}

/// ignore SIGXFSZ so that a write beyond RLIMIT_FSIZE returns EFBIG instead of killing us
pub fn ignore_sigxfsz() {
    unsafe {
        signal(SIGXFSZ, SIG_IGN);
    }
}

pub fn get_fsize_limit() -> (u64, u64) {
    let mut r = Rlimit { cur: 0, max: 0 };
    unsafe {
        getrlimit(RLIMIT_FSIZE, &mut r);
    }
    (r.cur, r.max)
}

/// set the soft file-size limit (bytes); hard limit untouched
pub fn set_fsize_soft(limit: u64) -> bool {
    let (_c, m) = get_fsize_limit();
    let r = Rlimit { cur: limit, max: m };
    unsafe { setrlimit(RLIMIT_FSIZE, &r) == 0 }
}

/// SIGKILL this process, now
pub fn kill_self() -> ! {
    unsafe {
        kill(getpid(), SIGKILL);
    }
    loop {
        std::thread::sleep(std::time::Duration::from_secs(1));
    }
}
