//! small self-contained helpers: PRNG, digest, hex, JSON writer.
use std::collections::BTreeMap;
use std::fmt::Write as _;

/// xorshift64* PRNG, seeded through splitmix64.
#[derive(Clone, Debug)]
pub struct Rng(u64);

impl Rng {
    pub fn new(seed: u64) -> Self {
        let mut z = seed.wrapping_add(0x9E37_79B9_7F4A_7C15);
        z = (z ^ (z >> 30)).wrapping_mul(0xBF58_476D_1CE4_E5B9);
        z = (z ^ (z >> 27)).wrapping_mul(0x94D0_49BB_1331_11EB);
        z ^= z >> 31;
        Rng(if z == 0 { 0x1234_5678_9ABC_DEF1 } else { z })
    }
    #[inline]
    pub fn next(&mut self) -> u64 {
        let mut x = self.0;
        x ^= x >> 12;
        x ^= x << 25;
        x ^= x >> 27;
        self.0 = x;
        x.wrapping_mul(0x2545_F491_4F6C_DD1D)
    }
    /// uniform in 0..n (n > 0)
    #[inline]
    pub fn below(&mut self, n: u64) -> u64 {
        self.next() % n
    }
    #[inline]
    pub fn range(&mut self, lo: u64, hi_incl: u64) -> u64 {
        lo + self.below(hi_incl - lo + 1)
    }
    #[inline]
    pub fn chance(&mut self, num: u64, den: u64) -> bool {
        self.below(den) < num
    }
    pub fn pick<'a, T>(&mut self, v: &'a [T]) -> &'a T {
        &v[self.below(v.len() as u64) as usize]
    }
    pub fn fork(&mut self) -> Rng {
        Rng::new(self.next())
    }
}

/// deterministic content for a value of `len` bytes.
/// kind 0: arbitrary bytes, 1: printable ascii, 2: bytes incl. invalid utf-8 and NULs at fixed places
pub fn gen_bytes(len: usize, seed: u32, kind: u8) -> Vec<u8> {
    let mut v = Vec::with_capacity(len);
    let mut r = Rng::new(seed as u64 ^ 0xA5A5_0000);
    while v.len() + 8 <= len {
        v.extend_from_slice(&r.next().to_le_bytes());
    }
    let rest = r.next().to_le_bytes();
    let n = len - v.len();
    v.extend_from_slice(&rest[..n]);
    match kind {
        1 => {
            for b in v.iter_mut() {
                *b = b' ' + (*b % 95);
            }
        }
        2 => {
            for (i, b) in v.iter_mut().enumerate() {
                if i % 7 == 3 {
                    *b = 0xFF;
                } else if i % 11 == 5 {
                    *b = 0;
                }
            }
        }
        4 => {
            // all zero bytes
            for b in v.iter_mut() {
                *b = 0;
            }
        }
        3 => {
            // ascii text; "é" (C3 A9) straddles every multiple of 1 MiB (and of 64 KiB); one invalid byte early on
            for b in v.iter_mut() {
                *b = b'a' + (*b % 26);
            }
            let n = v.len();
            let mut at = 65536usize;
            while at < n {
                v[at - 1] = 0xC3;
                v[at] = 0xA9;
                at += 65536;
            }
            if n > 3 {
                v[2] = 0xFF;
            }
        }
        _ => {}
    }
    v
}

/// 64-bit digest (8 bytes per step, multiply-rotate); not cryptographic.
pub fn digest64(seed: u64, data: &[u8]) -> u64 {
    let mut h = seed ^ 0xCBF2_9CE4_8422_2325 ^ (data.len() as u64).wrapping_mul(0x9E37_79B9_7F4A_7C15);
    let mut chunks = data.chunks_exact(8);
    for c in &mut chunks {
        let a = u64::from_le_bytes([c[0], c[1], c[2], c[3], c[4], c[5], c[6], c[7]]);
        h = (h ^ a).wrapping_mul(0x0000_0100_0000_01B3).rotate_left(29) ^ (h >> 31);
    }
    for &b in chunks.remainder() {
        h = (h ^ b as u64).wrapping_mul(0x0000_0100_0000_01B3).rotate_left(11);
    }
    h ^= h >> 33;
    h = h.wrapping_mul(0xFF51_AFD7_ED55_8CCD);
    h ^= h >> 33;
    h
}

pub fn hex(b: &[u8]) -> String {
    let mut s = String::with_capacity(b.len() * 2);
    for x in b {
        let _ = write!(s, "{:02x}", x);
    }
    s
}

pub fn unhex(s: &str) -> Option<Vec<u8>> {
    if s.len() % 2 != 0 {
        return None;
    }
    let b = s.as_bytes();
    let mut v = Vec::with_capacity(s.len() / 2);
    for i in (0..b.len()).step_by(2) {
        let h = (b[i] as char).to_digit(16)?;
        let l = (b[i + 1] as char).to_digit(16)?;
        v.push((h * 16 + l) as u8);
    }
    Some(v)
}

/// short printable form of a byte string for samples/witnesses
pub fn show_bytes(b: &[u8]) -> String {
    if b.len() <= 24 {
        format!("x{}", hex(b))
    } else {
        format!("x{}..(len {})", hex(&b[..12]), b.len())
    }
}

/// minimal JSON value
#[derive(Clone, Debug)]
pub enum J {
    Null,
    Bool(bool),
    Int(i128),
    Num(f64),
    Str(String),
    Arr(Vec<J>),
    Obj(BTreeMap<String, J>),
}

impl J {
    pub fn obj() -> J {
        J::Obj(BTreeMap::new())
    }
    pub fn set(&mut self, k: &str, v: J) -> &mut J {
        if let J::Obj(m) = self {
            m.insert(k.to_string(), v);
        }
        self
    }
    pub fn s(x: impl Into<String>) -> J {
        J::Str(x.into())
    }
    pub fn i(x: impl Into<i128>) -> J {
        J::Int(x.into())
    }
    pub fn u(x: u64) -> J {
        J::Int(x as i128)
    }
    pub fn render(&self) -> String {
        let mut s = String::new();
        self.write(&mut s);
        s
    }
    fn write(&self, out: &mut String) {
        match self {
            J::Null => out.push_str("null"),
            J::Bool(b) => out.push_str(if *b { "true" } else { "false" }),
            J::Int(i) => {
                let _ = write!(out, "{}", i);
            }
            J::Num(f) => {
                if f.is_finite() {
                    let _ = write!(out, "{}", f);
                } else {
                    out.push_str("null");
                }
            }
            J::Str(s) => {
                out.push('"');
                for c in s.chars() {
                    match c {
                        '"' => out.push_str("\\\""),
                        '\\' => out.push_str("\\\\"),
                        '\n' => out.push_str("\\n"),
                        '\r' => out.push_str("\\r"),
                        '\t' => out.push_str("\\t"),
                        c if (c as u32) < 0x20 => {
                            let _ = write!(out, "\\u{:04x}", c as u32);
                        }
                        c => out.push(c),
                    }
                }
                out.push('"');
            }
            J::Arr(a) => {
                out.push('[');
                for (i, x) in a.iter().enumerate() {
                    if i > 0 {
                        out.push(',');
                    }
                    x.write(out);
                }
                out.push(']');
            }
            J::Obj(m) => {
                out.push('{');
                for (i, (k, v)) in m.iter().enumerate() {
                    if i > 0 {
                        out.push(',');
                    }
                    J::Str(k.clone()).write(out);
                    out.push(':');
                    v.write(out);
                }
                out.push('}');
            }
        }
    }
}
