#!/usr/bin/env python3
"""Generates the self-validation mutants (one small behavioural break per file) as patches against /repo HEAD,
in a scratch worktree given as argv[1]. Each entry: (name, property it must trip, file, old, new)."""
import os, subprocess, sys
wt = sys.argv[1]
out = "/verif/selftest/mutants"
M = [
 ("c01_find_prefix", "C01", "src/filedb/dbmap/kt_dbbytes.rs", "        self.0.as_slice().cmp(other)", "        self.0.as_slice()[..self.0.len().min(12)].cmp(&other[..other.len().min(12)])"),
 ("c01_count_down_off_by_one", "C01", "src/filedb/inner/htx.rs", "        if val > 0 {\n            locked.file.write_item_count(val - 1)", "        if val > 1 {\n            locked.file.write_item_count(val - 1)"),
 ("c02_truncate_on_open", "C02", "src/filedb/inner/val.rs", "            .truncate(false)\n            .open(pb)?;\n        let mut file = match params.val_buf_size", "            .truncate(matches!(params.val_buf_size, FileBufSizeParam::Size(_)))\n            .open(pb)?;\n        let mut file = match params.val_buf_size"),
 ("c03_flush_two_of_three", "C03", "src/filedb/inner/dbxxx.rs", "            self.val_file.flush()?;\n            self.key_file.flush()?;\n            self.htx_file.flush()?;", "            self.val_file.flush()?;\n            self.key_file.flush()?;"),
 ("c03_sync_data_is_flush", "C03", "src/filedb/inner/dbxxx.rs", "        self.val_file.sync_data()?;\n        self.key_file.sync_data()?;\n        self.htx_file.sync_data()?;", "        self.val_file.flush()?;\n        self.key_file.flush()?;\n        self.htx_file.flush()?;"),
 ("c03_db_sync_skips_vu64", "C03", "src/filedb/inner/mod.rs", "            let keys: Vec<_> = self.db_vu64_map.keys().cloned().collect();", "            let keys: Vec<String> = Vec::new();"),
 ("c04_values_stale_offset", "C04", "src/filedb/inner/dbxxx.rs", "            let value_vec = db_map_inner.load_value(key_offset).unwrap();\n            Some((key, value_vec))", "            let mut value_vec = db_map_inner.load_value(key_offset).unwrap();\n            if value_vec.len() == 33 && key_offset.as_value() > 40_000 {\n                value_vec.pop();\n            }\n            Some((key, value_vec))"),
 ("c05_count_not_decremented_mid_chain", "C05", "src/filedb/inner/dbxxx.rs", "            self.key_file.delete_piece(key_offset)?;\n            self.htx_file.write_item_count_down()?;", "            self.key_file.delete_piece(key_offset)?;\n            if _prev_key_offset.is_zero() {\n                self.htx_file.write_item_count_down()?;\n            }"),
 ("c06_value_slot_not_freed", "C06", "src/filedb/inner/dbxxx.rs", "            self.val_file.delete_piece(key_piece.value_offset)?;\n", "            if value.len() < 2000 {\n                self.val_file.delete_piece(key_piece.value_offset)?;\n            }\n"),
 ("c06_never_reuse_small", "C06", "src/filedb/inner/piece.rs", "            if !free_1st.is_zero() {\n                let free_next = {", "            if !free_1st.is_zero() && new_piece_size.as_value() != 48 {\n                let free_next = {"),
 ("c06_never_reuse_small_b", "C06", "src/filedb/inner/piece.rs", "            Ok(free_1st)\n        } else {", "            Ok(if new_piece_size.as_value() != 48 { free_1st } else { PieceOffset::<T>::new(0) })\n        } else {"),
 ("c09_roundup_one_short", "C09", "src/filedb/inner/piece.rs", "            if piece_size <= n_sz {", "            if piece_size <= n_sz + (n_sz == 384) as u32 {"),
 ("c10_from_ref_differs", "C10", "src/filedb/dbmap/kt_dbi64.rs", "impl From<&i64> for DbI64 {\n    #[inline]\n    fn from(a: &i64) -> Self {\n        DbI64(a.to_le_bytes().to_vec())", "impl From<&i64> for DbI64 {\n    #[inline]\n    fn from(a: &i64) -> Self {\n        DbI64((*a as i32 as i64).to_le_bytes().to_vec())"),
 ("c12_hash_constant", "C12", "src/lib.rs", "        x ^= x >> 12;\n        x ^= x << 25;\n        x ^= x >> 27;", "        x ^= x >> 12;\n        x ^= x << 25;\n        x ^= x >> 28;"),
 ("c12_hash_le", "C12", "src/lib.rs", "                let a = u64::from_be_bytes(ary);", "                let a = u64::from_le_bytes(ary);"),
 ("c13_skip_val_sig2", "C13", "src/filedb/inner/val.rs", "    assert!(\n        sig2 == signature2,\n        \"invalid header signature2, type signature: {sig2:?}\",\n    );", "    let _ = signature2;"),
 ("c13_sig_first4", "C13", "src/filedb/inner/key.rs", "    assert!(\n        sig2 == signature2,\n        \"invalid header signature2, type signature: {sig2:?}\"\n    );\n    // reserve0", "    assert!(\n        sig2[..4] == signature2[..4],\n        \"invalid header signature2, type signature: {sig2:?}\"\n    );\n    // reserve0"),
 ("c14_bulk_get_no_resort", "C14", "src/lib.rs", "            let result_value = self.get(ik.1)?;\n            result.push((ik.0, result_value));\n        }\n        result.sort_by(|a, b| a.0.cmp(&(b.0)));", "            let result_value = self.get(ik.1)?;\n            result.push((ik.0, result_value));\n        }"),
 ("c14_bulk_put_string_key_as_value", "C14", "src/lib.rs", "            self.put(kv.0, kv.1.as_bytes())?;", "            self.put(kv.0, if kv.1.len() == 17 { b\"\" } else { kv.1.as_bytes() })?;"),
 ("c17_filling_uses_count", "C17", "src/filedb/inner/htx.rs", "        Ok((count, (count * 1000 / buckets_size) as u32))", "        let items = locked.file.read_item_count()?;\n        Ok((count, (items.min(buckets_size) * 1000 / buckets_size) as u32))"),
 ("c17_free_walk_off_by_one", "C17", "src/filedb/inner/piece.rs", "        let mut count = 0;\n        let free_1st = self.read_free_piece_offset_on_header(new_piece_size)?;", "        let mut count = if new_piece_size.as_value() == 24 { 1 } else { 0 };\n        let free_1st = self.read_free_piece_offset_on_header(new_piece_size)?;\n        if free_1st.is_zero() {\n            return Ok(0);\n        }"),
 ("c15_len_marks_dirty_and_rewrites", "C15", "src/filedb/inner/htx.rs", "    pub fn read_item_count(&self) -> Result<u64> {\n        let mut locked = RefCell::borrow_mut(&self.0);\n        locked.file.read_item_count()", "    pub fn read_item_count(&self) -> Result<u64> {\n        let mut locked = RefCell::borrow_mut(&self.0);\n        let c = locked.file.read_item_count()?;\n        if c == 7 {\n            locked.file.seek_from_start(NodePieceOffset::new(40))?;\n            locked.file.write_u64_le(c)?;\n        }\n        Ok(c)"),
 ("c18_hashmap_order_in_sync", "C18", "src/lib.rs", "        let mut vec = bulk.to_vec();\n        vec.sort_by(|a, b| b.0.cmp(a.0));\n        while let Some(kv) = vec.pop() {\n            self.put(kv.0, kv.1)?;\n        }", "        let set: std::collections::HashSet<usize> = (0..bulk.len()).collect();\n        for i in set {\n            self.put(bulk[i].0, bulk[i].1)?;\n        }"),
 ("c08_relink_old_offset", "C08", "src/filedb/inner/dbxxx.rs", "                if piece.bucket_next_offset == old_offset {\n                    piece.bucket_next_offset = new_offset;", "                if piece.bucket_next_offset == old_offset {\n                    piece.bucket_next_offset = if new_offset.as_value() > 131_100 { old_offset } else { new_offset };"),
 ("c07_size_clamp_reverted_htx", "C07", "src/filedb/inner/htx.rs", "(val / idx_buf_chunk_size).max(2)", "(val / idx_buf_chunk_size).max(1)"),
 ("c16_ignore_key_flush_error", "C16", "src/filedb/inner/dbxxx.rs", "            self.val_file.flush()?;\n            self.key_file.flush()?;\n            self.htx_file.flush()?;", "            self.val_file.flush()?;\n            let _ = self.key_file.flush();\n            self.htx_file.flush()?;"),
 ("c11_name_from_type", "C11", "src/filedb/inner/htx.rs", "        pb.push(format!(\"{ks_name}.htx\"));", "        pb.push(format!(\"{}.htx\", if ks_name.len() == 2 { &ks_name[..1] } else { ks_name }));"),
]
def sh(*a): return subprocess.run(a, cwd=wt, capture_output=True, text=True)
for name, prop, f, old, new in M:
    sh("git", "checkout", "--", ".")
    p = os.path.join(wt, f)
    s = open(p).read()
    if s.count(old) != 1:
        print("SKIP", name, "pattern count", s.count(old)); continue
    open(p, "w").write(s.replace(old, new))
    d = sh("git", "diff").stdout
    open(os.path.join(out, f"{name}.diff"), "w").write(f"# must trip {prop}\n" + d)
    print("ok", name)
sh("git", "checkout", "--", ".")
