#!/usr/bin/env python3
"""Self-validation: every mutant must (a) compile and pass the repository's own tests (checked in a scratch
worktree), (b) trip the check of the property it targets within the quick tier. Results: selftest/results.json.
usage: run_mutants.py <scratch worktree> [--phase tests|checks] [name ...]"""
import json, os, re, subprocess, sys, time
wt = sys.argv[1]
phase = "both"
names = []
args = sys.argv[2:]
while args:
    a = args.pop(0)
    if a == "--phase": phase = args.pop(0)
    else: names.append(a)
D = "/verif/selftest/mutants"
R = "/verif/selftest/results.json"
res = json.load(open(R)) if os.path.exists(R) else {}
env = dict(os.environ, CARGO_NET_OFFLINE="true")
for f in sorted(os.listdir(D)):
    name = f[:-5]
    if names and name not in names: continue
    text = open(os.path.join(D, f)).read()
    prop = re.match(r"# must trip (C\d+)", text).group(1)
    r = res.setdefault(name, {"property": prop})
    if phase in ("both", "tests"):
        subprocess.run(["git", "checkout", "--", "."], cwd=wt)
        a = subprocess.run(["git", "apply", os.path.join(D, f)], cwd=wt, capture_output=True, text=True)
        if a.returncode != 0:
            r["tests"] = "patch does not apply: " + a.stderr[:200]; print(name, r["tests"]); continue
        t = subprocess.run(["cargo", "test", "--workspace", "--no-fail-fast", "--offline"], cwd=wt, env=env, capture_output=True, text=True)
        o = t.stdout + t.stderr
        p = sum(int(x) for x in re.findall(r"test result: \w+\. (\d+) passed", o)); fl = sum(int(x) for x in re.findall(r"passed; (\d+) failed", o))
        r["tests"] = f"{p} passed, {fl} failed" if "error: could not compile" not in o and "error[" not in o else "does not compile"
        subprocess.run(["git", "checkout", "--", "."], cwd=wt)
        print(name, "tests:", r["tests"], flush=True)
    if phase in ("both", "checks") and r.get("tests", "").startswith("55 passed, 0 failed"):
        assert subprocess.run(["git", "-C", "/repo", "status", "--porcelain", "--untracked-files=no"], capture_output=True, text=True).stdout.strip() == ""
        subprocess.run(["git", "-C", "/repo", "apply", os.path.join(D, f)], check=True)
        try:
            t0 = time.time()
            c = subprocess.run(["/verif/check", prop, "quick"], cwd="/verif", capture_output=True, text=True)
            lines = [l for l in c.stdout.splitlines() if l.startswith(("violation", "INCONCLUSIVE", "HELD"))]
            r["check"] = {0: "silent", 1: "VIOLATION", 2: "inconclusive"}.get(c.returncode, str(c.returncode))
            r["wall_s"] = round(time.time() - t0, 1)
            r["first_line"] = lines[0][:300] if lines else ""
        finally:
            subprocess.run(["git", "-C", "/repo", "checkout", "--", "."], check=True)
        print(name, prop, r["check"], r["wall_s"], r["first_line"][:200], flush=True)
    json.dump(res, open(R, "w"), indent=1, sort_keys=True)
