#!/bin/sh
# re-run every kept seeded change and every own mutant against the quick tier of its target check
cd /verif
for d in $(ls seeded | sort); do python3 tools/try_seed.py $d 2>&1 | tail -1 | cut -c1-200; done
python3 selftest/run_mutants.py /tmp/mutwt --phase checks 2>&1 | awk '{print $1,$2,$3,$4}'
python3 tools/kill_matrix.py > /dev/null
echo ALL-SEEDS-DONE
