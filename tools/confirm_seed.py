#!/usr/bin/env python3
"""Confirm a seeded change produced by a sub-agent, in its scratch worktree (never in /repo):
 patch applies; the existing suite passes with it; the demo fails with it and passes without it.
 usage: confirm_seed.py <worktree> <k> <property id> [k to store it under]      -> writes /verif/seeded/<id>_<k>/ when confirmed"""
import json, os, re, shutil, subprocess, sys

wt, k, pid = sys.argv[1], sys.argv[2], sys.argv[3]
outk = sys.argv[4] if len(sys.argv) > 4 else k
out = os.path.join(wt, "seed_out")
patch, demo, meta = [os.path.join(out, f"{n}{k}.{e}") for n, e in (("patch", "diff"), ("demo", "rs"), ("meta", "md"))]
env = dict(os.environ, CARGO_NET_OFFLINE="true")

def sh(cmd, **kw):
    return subprocess.run(cmd, cwd=wt, env=env, stdout=subprocess.PIPE, stderr=subprocess.STDOUT, text=True, **kw)

def tests(args, timeout=1200):
    try:
        r = sh(["cargo", "test", "--offline", "--no-fail-fast"] + args, timeout=timeout)
        o = r.stdout
    except subprocess.TimeoutExpired as e:
        o = (e.stdout or b"").decode() if isinstance(e.stdout, bytes) else (e.stdout or "")
        o += "\nTIMEOUT"
    passed = sum(int(x) for x in re.findall(r"test result: \w+\. (\d+) passed", o))
    failed = sum(int(x) for x in re.findall(r"test result: \w+\. \d+ passed; (\d+) failed", o))
    return passed, failed, o

res = {"property": pid, "k": k}
sh(["git", "checkout", "--", "."]); sh(["git", "clean", "-fdq", "tests", "src"])
r = sh(["git", "apply", "--check", patch])
if r.returncode != 0:
    print("patch does not apply:", r.stdout); sys.exit(1)
sh(["git", "apply", patch])
p, f, o = tests(["--workspace"])
res["suite_with_patch"] = f"{p} passed, {f} failed"
if f != 0 or p < 55 or "TIMEOUT" in o:
    print("existing suite not green with the patch:", res); sh(["git", "checkout", "--", "."]); sys.exit(1)
shutil.copy(demo, os.path.join(wt, "tests", f"seed_demo{k}.rs"))
p, f, o = tests(["--test", f"seed_demo{k}"], timeout=600)
res["demo_with_patch"] = f"{p} passed, {f} failed" + (" (timeout)" if "TIMEOUT" in o else "")
demo_fails = f > 0 or "TIMEOUT" in o or "error: test failed" in o
# release too (some defects only hang there)
sh(["git", "checkout", "--", "src", "Cargo.toml"])
p2, f2, o2 = tests(["--test", f"seed_demo{k}"], timeout=600)
res["demo_without_patch"] = f"{p2} passed, {f2} failed"
os.remove(os.path.join(wt, "tests", f"seed_demo{k}.rs"))
sh(["git", "checkout", "--", "."])
ok = demo_fails and f2 == 0 and p2 > 0
res["confirmed"] = ok
print(json.dumps(res))
if ok:
    d = f"/verif/seeded/{pid}_{outk}"
    os.makedirs(d, exist_ok=True)
    shutil.copy(patch, os.path.join(d, "patch.diff"))
    shutil.copy(demo, os.path.join(d, "demo.rs"))
    m = {"breaks_property": pid, "agent_notes": open(meta).read() if os.path.exists(meta) else "",
         "confirmation": {"worktree": wt, "ran": ["git apply patch.diff", "cargo test --workspace --no-fail-fast --offline", f"cargo test --offline --test seed_demo{k} (with patch)", f"cargo test --offline --test seed_demo{k} (without patch)"], **res},
         "detected_by": {}}
    json.dump(m, open(os.path.join(d, "meta.json"), "w"), indent=1)
sys.exit(0 if ok else 1)
