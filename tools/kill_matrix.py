#!/usr/bin/env python3
"""Writes /verif/KILL_MATRIX.md from seeded/*/meta.json and selftest/results.json"""
import json, os, re
out = ["# Kill matrix", "", "Verdict of the quick tier of the targeted check with the change applied to /repo (undone straight afterwards).", "",
       "## Seeded changes written by independent sub-agents", "", "| change | breaks | what it is (agent's words, first line) | check verdict | first report |", "|---|---|---|---|---|"]
sd = "/verif/seeded"
def natural(d):
    a, b = d.split("_")
    return (a, int(b))
for d in sorted(os.listdir(sd), key=natural):
    mp = os.path.join(sd, d, "meta.json")
    if not os.path.exists(mp): continue
    m = json.load(open(mp))
    notes = [l.strip("# *-").strip() for l in m.get("agent_notes", "").splitlines() if l.strip()]
    what = (notes[0] if notes else "")[:110].replace("|", "/")
    nd = m.get("not_detected_by_design")
    for cid, r in m.get("detected_by", {}).items():
        verdict = f"{cid}: {r['verdict']}" + (" (thorough tier)" if r.get("tier") == "thorough" else "")
        first = r.get('first_line','')[:140].replace('|','/')
        if nd and r['verdict'] != "VIOLATION":
            verdict += " - not covered, on purpose"
            first = nd[:400].replace('|','/')
        out.append(f"| {d} | {m['breaks_property']} | {what} | {verdict} | {first} |")
out += ["", "## Own mutants (selftest/mutants)", "", "| mutant | targets | existing tests | check verdict | first report |", "|---|---|---|---|---|"]
rp = "/verif/selftest/results.json"
if os.path.exists(rp):
    for k, r in sorted(json.load(open(rp)).items()):
        out.append(f"| {k} | {r['property']} | {r.get('tests','')} | {r.get('check','(not run: existing tests catch it)')} | {r.get('first_line','')[:140].replace('|','/')} |")
open("/verif/KILL_MATRIX.md", "w").write("\n".join(out) + "\n")
print("\n".join(out[-40:]))
