#!/bin/sh
# run every quick check at several seeds on the current tree; prints one line per (seed, property)
# usage: tools/sweep.sh "0 1 2" [quick|thorough] [props...]
SEEDS=${1:-"0 1 2"}; TIER=${2:-quick}; shift 2 2>/dev/null
PROPS=${*:-"C01 C02 C03 C04 C05 C06 C07 C08 C09 C10 C11 C12 C13 C14 C15 C16 C17 C18"}
cd /verif
for s in $SEEDS; do for p in $PROPS; do
  o=$(VERIF_SEED=$s ./check $p $TIER 2>&1); rc=$?
  echo "seed=$s $p rc=$rc $(echo "$o" | grep -a -E '^(HELD|VIOLATION|INCONCLUSIVE|violation)' | head -2 | tr '\n' ' ' | cut -c1-260)"
done; done
