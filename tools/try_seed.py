#!/usr/bin/env python3
"""Apply a kept seeded change to /repo, run checks against it, undo it straight afterwards.
 usage: try_seed.py <seed dir name under /verif/seeded> [check ids ...] [--tier quick]   (default: the property it breaks)"""
import json, os, subprocess, sys, time
name = sys.argv[1]
ids = [a for a in sys.argv[2:] if a.startswith("C")]
d = os.path.join("/verif/seeded", name)
meta = json.load(open(os.path.join(d, "meta.json")))
if not ids:
    ids = [meta["breaks_property"]]
assert subprocess.run(["git", "-C", "/repo", "status", "--porcelain", "--untracked-files=no"], capture_output=True, text=True).stdout.strip() == "", "/repo not clean"
subprocess.run(["git", "-C", "/repo", "apply", os.path.join(d, "patch.diff")], check=True)
try:
    for i in ids:
        t0 = time.time()
        r = subprocess.run(["/verif/check", i, "quick"], cwd="/verif", capture_output=True, text=True)
        lines = [l for l in r.stdout.splitlines() if l.startswith(("VIOLATION", "violation", "INCONCLUSIVE", "HELD", "KNOWN"))]
        verdict = {0: "silent", 1: "VIOLATION", 2: "inconclusive"}.get(r.returncode, str(r.returncode))
        meta["detected_by"][i] = {"tier": "quick", "verdict": verdict, "wall_s": round(time.time() - t0, 1), "first_line": (lines[0][:400] if lines else "")}
        print(name, i, verdict, round(time.time() - t0, 1), (lines[0][:300] if lines else ""))
finally:
    subprocess.run(["git", "-C", "/repo", "checkout", "--", "."], check=True)
json.dump(meta, open(os.path.join(d, "meta.json"), "w"), indent=1)
# evidence files were rewritten against the mutated tree: the caller re-runs the checks on the clean tree
